"""C19 - generated instances respect the requested shape and seed.

R19.a  machine pool: the ``machines`` of every Operation the generator builds
       are drawn from a pool that depends on the ``num_machines`` of that
       ``generate`` call.
R19.b  jobs-vs-machines: with fewer jobs than machines disallowed, the upper
       bound of the sampled machine count is capped by the job count, and an
       explicit (num_jobs, num_machines) request is checked *after* the job
       count is known.
R19.c  RNG ownership: every draw in the generator classes goes through the
       generator's own ``random.Random(seed)``; the process-global ``random``
       module is neither seeded nor drawn from.
R19.d  naming: the name counter only ever increases by one and is part of
       every instance name; ``generate`` names each instance with it.
R19.e  iterator protocol: ``__next__`` raises StopIteration at the limit,
       advances the iteration count once and returns ``generate()``;
       ``__iter__`` restarts the iteration count (not the name counter).
R19.f  without recirculation the per-job machine pool is re-created for each
       job and the chosen id is removed from it.
R19.g  shape: one job per ``range(num_jobs)`` step, one operation per
       ``range(num_machines)`` step; sizes and durations are drawn from the
       configured ranges.
R19.i  read-only configuration: outside the constructors, generator methods
       write only the name counter and the iteration state.
R19.h  distinct machines: nothing sampled with replacement (``choices``, a
       loop of single draws without removal / membership test) reaches
       ``Operation(machines=...)``.
R19.j  no function of these modules modifies the object of a mutable default
       argument (directly, through a local alias, or with ``+=``): the result
       of a call must not depend on earlier calls.
R19.k  no for-loop variable of these modules is read after its loop (a statement
       left one indentation level too shallow sees only the last element).
"""

from __future__ import annotations

import ast

from ..repo import AnalysisError, FuncInfo, dotted, own_nodes
from .common import only_called_from, resolve_root, source_pos, step_of

MANIFEST = {
    "text": (
        "Decides the structural clauses of C19 for all parameter settings: the "
        "machine pool of every generated operation depends on the call's "
        "num_machines; the jobs>=machines constraint caps the sampled upper "
        "bound and checks explicit requests after the job count is known; all "
        "draws go through the generator-owned Random(seed), so equal seeds give "
        "equal sequences; the name counter only increases and is embedded in "
        "each name; the iterator yields exactly iteration_limit instances per "
        "pass; the no-recirculation pool is per job with removal; the loops "
        "produce num_jobs x num_machines operations with range-drawn durations; the machine list of a flexible operation is never sampled with replacement; generating never rewrites the generator's configuration. "
        "Not decided: that sampled values lie in their ranges (values)."
        " Also decided: no function of these modules accumulates into a mutable default argument."
        " Also decided: no for-loop variable of these modules is read after its loop (statement left one indentation level too shallow)."
    ),
    "note": "random.Random's determinism for a given seed and call order is trusted.",
    "technique": "interprocedural data-dependence (taint) of constructor arguments + RNG who-may-call sweep + attribute write discipline + loop-shape matching",
    "ref": "DESIGN.md §3 C19",
}
UNDECIDED = ["sampled values lie within the requested ranges (runtime values)"]
ASSUMPTIONS = ["random.Random(seed) yields the same stream for the same seed and call sequence"]

RNG_ATTRS = ("rng", "_rng", "random", "_random")


def _gen_classes(ctx):
    base = ctx.repo.find_class("InstanceGenerator")
    return base, ctx.repo.subclasses(base.qualname)


def dep_on(ctx, fi: FuncInfo, expr, names: set[str], depth=0) -> bool:
    """expr is data-dependent on one of the local/parameter ``names`` of fi,
    following local definitions and package callees (argument -> parameter
    -> return)."""
    if depth > 5:
        return False

    def pred(n):
        if isinstance(n, ast.Name) and n.id in names:
            return True
        if isinstance(n, ast.Call):
            ts, _ = ctx.res.callees(fi, n, fi.cls)
            for t in ts:
                if isinstance(t.node, ast.Lambda) or t.name == "__init__":
                    continue
                params = t.params[1:] if (t.cls is not None and not t.is_static) else t.params
                tainted = set()
                for p, a in list(zip(params, n.args)) + [(k.arg, k.value) for k in n.keywords if k.arg]:
                    if ctx.flow.depends_on(fi, a, lambda x: isinstance(x, ast.Name) and x.id in names):
                        tainted.add(p)
                if not tainted:
                    continue
                rets = [r.value for r in own_nodes(t.node) if isinstance(r, ast.Return) and r.value is not None]
                if any(dep_on(ctx, t, r, tainted, depth + 1) for r in rets):
                    return True
        return False

    return ctx.flow.depends_on(fi, expr, pred)


def run(ctx):
    chk, repo = ctx.chk, ctx.repo
    from .common import check_loop_variable_leaks

    check_loop_variable_leaks(ctx, "R19.k", ("job_shop_lib.generation",), "the generation")
    from .common import check_mutable_defaults

    check_mutable_defaults(ctx, "R19.j", ("job_shop_lib.generation",), "the generation")
    for rid, txt in (
        ("R19.a", "the machines of every generated Operation depend on the num_machines of the generate call"),
        ("R19.b", "jobs >= machines (when required): sampled upper bound capped by num_jobs; explicit requests checked after num_jobs is known"),
        ("R19.c", "all draws use the generator-owned random.Random(seed); the global random module is not seeded or drawn from"),
        ("R19.d", "the name counter only increases by one, is embedded in every name, and names every generated instance"),
        ("R19.e", "__next__: StopIteration at the limit, one increment, returns generate(); __iter__ restarts the iteration count only"),
        ("R19.f", "no recirculation: per-job pool re-created per job; chosen machine removed from it"),
        ("R19.h", "the machine list of a flexible operation is drawn without replacement (distinct machine ids)"),
        ("R19.i", "generating an instance never changes the generator's configuration: outside the constructors only the name counter and the iteration state are written"),
        ("R19.g", "num_jobs jobs of num_machines operations; sizes and durations drawn from the configured ranges"),
    ):
        chk.rule(rid, txt)
    base, cone = _gen_classes(ctx)
    ctx.attempt(_find_roles, ctx, base, cone)
    chk.analysed["generator_roles"] = {k: (v.qualname if hasattr(v, "qualname") else v) for k, v in ROLE.items()}
    gen_cls = repo.find_class("GeneralInstanceGenerator")
    generate = gen_cls.methods.get("generate")
    cro = gen_cls.methods.get("create_random_operation")
    if generate is None or cro is None:
        raise AnalysisError("GeneralInstanceGenerator.generate/create_random_operation vanished")
    op_cls = repo.find_class("Operation")

    # ---------------------------------------------------------------- R19.a
    n_ops = 0
    for m in gen_cls.methods.values():
        for n in own_nodes(m.node):
            if not (isinstance(n, ast.Call) and repo.resolve(m.module.name, dotted(n.func) or "") == op_cls.qualname):
                continue
            n_ops += 1
            marg = next((k.value for k in n.keywords if k.arg == "machines"), n.args[0] if n.args else None)
            if marg is None:
                raise AnalysisError(f"{m.loc(n)}: Operation(...) without machines")
            pool_params = {p for p in m.params if "machine" in p}
            if m is generate:
                pool_params = {"num_machines"}
            if dep_on(ctx, m, marg, pool_params):
                chk.ok("R19.a", m.qualname, m.loc(n), f"machines depend on {sorted(pool_params)}")
            else:
                src = ast.unparse(marg)
                d = ctx.flow.defs(m).of(src) if isinstance(marg, ast.Name) else []
                shown = ast.unparse(d[-1][1]) if d else src
                # keyed by what the construction is (one machine id / a list of eligible machines), not by how
                # the value is spelt: the recorded finding D9 must stay recognisable when the helper that draws
                # the machines is renamed, inlined or re-expressed
                try:
                    ty = ctx.types.type_of(m.module, marg) or ""
                except Exception:
                    ty = ""
                several = "list" in ty or "Sequence" in ty or "tuple" in ty
                tag = (
                    "machines = <eligible machines of a multi-machine operation>" if several or not ty
                    else "machines = <machine of a single-machine operation>"
                )
                chk.violation(
                    "R19.a", m, tag if m.name == "create_random_operation" else (d[-1][2] if d else n),
                    f"the eligible machines of this operation come from `{shown}`, which does not depend on the "
                    f"machine pool of the instance being generated ({sorted(pool_params)}): they are drawn from a "
                    "fixed prefix of machine ids, not from all M machines",
                    loc=m.loc(n),
                )
    chk.floor("R19.a", n_ops, 1, "Operation constructions in the generator")
    # generate must hand a pool derived from num_machines to create_random_operation
    for n in own_nodes(generate.node):
        if isinstance(n, ast.Call) and isinstance(n.func, ast.Attribute) and n.func.attr == "create_random_operation":
            a = n.args[0] if n.args else next((k.value for k in n.keywords), None)
            if a is None or not ctx.flow.depends_on(generate, a, lambda x: isinstance(x, ast.Name) and x.id == "num_machines"):
                n_built = sum(
                    1 for x in own_nodes(generate.node)
                    if isinstance(x, ast.Call) and (dotted(x.func) or "").split(".")[-1] == "JobShopInstance"
                )
                if a is None and n_built > 1:
                    # several generation strategies chosen by a flag kept beside the configuration: the pool-less
                    # call may be reached only where the pool is irrelevant (multi-machine operations) - not decided
                    raise AnalysisError(
                        f"{generate.loc(n)}: generate has several strategies and calls create_random_operation() without a pool on one of them; "
                        "whether that strategy is taken only where the pool does not matter is not decided"
                    )
                chk.violation("R19.a", generate, n, "generate does not pass a pool derived from num_machines to create_random_operation", loc=generate.loc(n))
            else:
                chk.ok("R19.a", generate.qualname, generate.loc(n), "pool = f(num_machines)")

    # ---------------------------------------------------------------- R19.h
    ctx.attempt(_distinct_machines, ctx, cro, op_cls)

    # ---------------------------------------------------------------- R19.i
    ctx.attempt(_config_is_read_only, ctx, base, cone)

    # ---------------------------------------------------------------- R19.b
    ctx.attempt(_jobs_vs_machines, ctx, generate)

    # ---------------------------------------------------------------- R19.c
    n_draw = 0
    owner_ok = False
    # judged on the flattened methods (private helpers, also module-level
    # ones that are handed the RNG, inlined) plus the raw module-level helpers
    # of the generator modules (for draws from the global module)
    seen_sites = set()
    units = []
    for c in cone:
        for m0 in list(c.methods.values()):
            if m0.name == "__init__":
                # the written-out form first: the RNG may be made by a helper (`self.rng = make_rng(seed)`) or seeded
                # by one; a site already judged there is not judged again on the raw text
                try:
                    units.append(ctx.norm.flat(m0, depth=3))
                except AnalysisError:
                    pass
            units.append(ctx.norm.flat(m0, depth=4) if m0.name != "__init__" else m0)
    gen_modules = {c.module.name for c in cone}
    for mi_ in repo.modules.values():
        if mi_.name in gen_modules:
            units += [f for f in mi_.functions.values() if not isinstance(f.node, ast.Lambda)]
    for _c in [None]:
        for m in units:
            for n in own_nodes(m.node):
                if not isinstance(n, ast.Call):
                    continue
                key = (getattr(n, "lineno", 0), getattr(n, "col_offset", 0), ast.unparse(n))
                if key in seen_sites:
                    continue
                seen_sites.add(key)
                d = dotted(n.func) or ""
                q = repo.resolve(m.module.name, d) or d
                if q == "random.Random":
                    # owned RNG: must be seeded with the constructor's seed
                    if m.name == "__init__" and n.args and isinstance(n.args[0], ast.Name) and n.args[0].id == "seed":
                        owner_ok = True
                        chk.ok("R19.c", m.qualname, m.loc(n), "self RNG = random.Random(seed)")
                    elif m.name == "__init__" and not n.args and not n.keywords and _under_seed_is_none(m, n):
                        pass  # `if seed is None: Random()` - what Random(None) does anyway; the seeded branch is judged on its own
                    elif m.name == "__init__" and not n.args and not n.keywords and _seeded_afterwards(ctx, m, n) is True:
                        owner_ok = True
                        chk.ok("R19.c", m.qualname, m.loc(n), "self RNG = random.Random(), then .seed(seed) whenever a seed is given")
                    elif m.name == "__init__" and not n.args and not n.keywords and _seeded_afterwards(ctx, m, n) == "truthy":
                        chk.violation(
                            "R19.c", m, n,
                            "the generator's RNG is created unseeded and seeded only `if seed:`: the seed 0 is a seed like any "
                            "other, and a generator created with it is not reproducible",
                            loc=m.loc(n),
                        )
                    elif m.name == "__init__" and not n.args and not n.keywords and _seeded_afterwards(ctx, m, n) is None:
                        raise AnalysisError(
                            f"{m.loc(n)}: the generator's RNG is created unseeded and seeded by a later call; whether that "
                            "call is reached, with the `seed` argument, whenever a seed is given is not decided"
                        )
                    elif m.name == "__init__":
                        chk.violation("R19.c", m, n, f"the generator's RNG is created as `{ast.unparse(n)}`, not from the `seed` argument", loc=m.loc(n))
                    continue
                if q.startswith("random.") or q.startswith(("numpy.random.", "np.random.")):
                    n_draw += 1
                    what = "seeds" if q.endswith(".seed") else "draws from"
                    chk.violation(
                        "R19.c", m, n,
                        f"{m.name} {what} the process-global RNG (`{d}`): two generators with the same seed "
                        "interleave on shared state (or this draw is not covered by the seed at all) and "
                        "produce different sequences",
                        loc=m.loc(n),
                    )
                elif isinstance(n.func, ast.Attribute) and isinstance(n.func.value, ast.Attribute) and n.func.value.attr in RNG_ATTRS and ast.unparse(n.func.value.value) == "self":
                    n_draw += 1
                    chk.ok("R19.c", m.qualname, m.loc(n), f"draw through self.{n.func.value.attr}")
    if not owner_ok and not any(i["rule"] == "R19.c" and i["verdict"] != "holds" for i in chk.instances):
        chk.violation("R19.c", base.methods["__init__"], None, "the generator owns no RNG seeded from its `seed` argument")
    chk.floor("R19.c", n_draw, 5, "random draws in the generator classes")

    # ---------------------------------------------------------------- R19.d
    n_cw = 0
    for c in cone:
        for m in c.methods.values():
            for n in own_nodes(m.node):
                if not ROLE["counter"]:
                    continue
                C = f"self.{ROLE['counter']}"
                is_write = (isinstance(n, ast.Assign) and len(n.targets) == 1 and ast.unparse(n.targets[0]) == C) or (
                    isinstance(n, ast.AugAssign) and ast.unparse(n.target) == C)
                if not is_write:
                    continue
                n_cw += 1
                k = step_of(ctx, m, n, C)
                if k == 1:
                    chk.ok("R19.d", m.qualname, m.loc(n), "counter advanced by one")
                elif k is not None:
                    chk.violation("R19.d", m, n, f"the name counter is changed by `{ast.unparse(n)}`, not increased by one", loc=m.loc(n))
                elif m.name == "__init__" and isinstance(n, ast.Assign) and isinstance(n.value, ast.Constant) and n.value.value == 0:
                    chk.ok("R19.d", m.qualname, m.loc(n), "counter starts at 0")
                else:
                    chk.violation(
                        "R19.d", m, n,
                        f"{m.name} rebinds the name counter (`{ast.unparse(n)}`): names already used by "
                        "this generator are handed out again",
                        loc=m.loc(n),
                    )
    if ROLE["counter"] is not None:
        chk.floor("R19.d", n_cw, 2, "writes of the name counter")
    nn = ROLE["namer"]
    if nn is None:
        chk.violation("R19.d", generate, None, "no function of the generator builds the instance name from a counter it increases: names can repeat")
    else:
        rets = [r for r in own_nodes(nn.node) if isinstance(r, ast.Return)]
        inc = [a for a in own_nodes(nn.node) if step_of(ctx, nn, a, f"self.{ROLE['counter']}") == 1]
        if len(rets) == 1 and inc and source_pos(nn.node)(inc[0]) < source_pos(nn.node)(rets[0]):
            chk.ok("R19.d", nn.qualname, nn.loc(), "name embeds the freshly increased counter")
        else:
            chk.violation("R19.d", nn, rets[0] if rets else None, "the instance name does not embed the freshly increased counter")
        if ROLE["iter"] is not None and ROLE["iter"] == ROLE["counter"]:
            chk.violation(
                "R19.d", nn, inc[0] if inc else None,
                f"the name counter and the iteration count are the same attribute `self.{ROLE['counter']}`: restarting an "
                "iteration restarts the names, and every generate() call eats one iteration",
            )
        gflat = ctx.norm.flat(generate)
        named = [
            n for n in own_nodes(gflat.node)
            if isinstance(n, ast.Call) and repo.resolve(generate.module.name, dotted(n.func) or "") == repo.find_class("JobShopInstance").qualname
        ]
        def _named_by_counter(call):
            for k in call.keywords:
                if k.arg == "name":
                    t = ctx.norm.xtext(gflat, k.value)
                    return f"{nn.name}(" in t or f"self.{ROLE['counter']}" in t
            return False
        # one construction per returning strategy, each directly returned and named by the counter
        each_returned = all(isinstance(gflat.module.parents.get(c_), ast.Return) for c_ in named)
        if named and all(_named_by_counter(c_) for c_ in named) and (len(named) == 1 or each_returned):
            chk.ok("R19.d", generate.qualname, gflat.loc(named[0]), f"every instance named through {nn.name}()")
        else:
            chk.violation("R19.d", generate, named[0] if named else None, f"generate does not name the instance with {nn.name}()")

    # ---------------------------------------------------------------- R19.e
    ctx.attempt(_iterator, ctx, base)

    # ---------------------------------------------------------------- R19.f/g
    ctx.attempt(_pool_and_shape, ctx, gen_cls, generate, cro)


def _under_seed_is_none(m, node) -> bool:
    child, cur = node, m.module.parents.get(node)
    while cur is not None and cur is not m.node:
        if isinstance(cur, ast.If) and any(child is x for b in cur.body for x in ast.walk(b)) and ast.unparse(cur.test).replace(" ", "") == "seedisNone":
            return True
        child, cur = cur, m.module.parents.get(cur)
    return False


def _seeded_afterwards(ctx, m, node):
    """`self.rng = random.Random()` followed, under `if seed is not None:`, by `self.rng.seed(<seed>)` as a statement
    of that branch: what `random.Random(seed)` does.  True / False (no later seeding at all) / None (not decided)."""
    body = list(getattr(m.node, "body", []))
    seeders = [
        x for st in body for x in ast.walk(st)
        if isinstance(x, ast.Call) and isinstance(x.func, ast.Attribute) and x.func.attr == "seed"
        and isinstance(x.func.value, ast.Attribute) and x.func.value.attr in RNG_ATTRS and ast.unparse(x.func.value.value) == "self"
    ]
    if not seeders:
        return False
    at = next((i for i, st in enumerate(body) if any(x is node for x in ast.walk(st))), None)
    if at is None or len(seeders) != 1:
        return None
    call = seeders[0]
    for st in body[at + 1:]:
        if isinstance(st, ast.If) and ast.unparse(st.test) == "seed" and any(x is call for x in ast.walk(st)):
            return "truthy"
        if isinstance(st, ast.If) and ast.unparse(st.test).replace(" ", "") == "seedisnotNone" and not st.orelse:
            for b in st.body:
                if isinstance(b, ast.Expr) and b.value is call and len(call.args) == 1 and not call.keywords:
                    a = call.args[0]
                    defs = [
                        x.value for x in ast.walk(st) if isinstance(x, ast.Assign) and len(x.targets) == 1
                        and isinstance(x.targets[0], ast.Name) and isinstance(a, ast.Name) and x.targets[0].id == a.id
                    ]
                    # the argument is `seed` itself, or a local that holds it (re-bound only where it is None)
                    if isinstance(a, ast.Name) and (a.id == "seed" or (defs and isinstance(defs[0], ast.Name) and defs[0].id == "seed")):
                        later = defs[1:]
                        guarded = all(
                            any(isinstance(i, ast.If) and ast.unparse(i.test).replace(" ", "") == f"{a.id}isNone"
                                and any(y is d for s2 in i.body for y in ast.walk(s2)) for i in ast.walk(st))
                            for d in later
                        )
                        if guarded:
                            return True
    return None


ROLE = {"limit": "_iteration_limit", "iter": "_current_iteration", "counter": "_counter", "namer": None, "step": 1}


def _self_attr(e):
    if isinstance(e, ast.Attribute) and isinstance(e.value, ast.Name) and e.value.id == "self":
        return e.attr
    return None


def _find_roles(ctx, base, cone):
    """Attribute / helper names by the role they play (a rename of private
    names is not an analysis error):
    limit   - self.X = iteration_limit in the base constructor
    iter    - the self attribute __next__ compares with the limit
    counter - the self attribute increased in the function whose returned
              string embeds it (the namer)"""
    init = base.methods.get("__init__")
    nxt = base.methods.get("__next__")
    if init is None or nxt is None:
        raise AnalysisError("InstanceGenerator.__init__/__next__ vanished")
    limit = None
    for init_v in (init, None):
        if init_v is None:
            if limit is not None:
                break
            init_v = ctx.norm.flat(init, depth=3)  # stored by a private step / a bundled state object
        for n in own_nodes(init_v.node):
            tgs = n.targets if isinstance(n, ast.Assign) else [n.target] if isinstance(n, ast.AnnAssign) and n.value is not None else []
            for t in tgs:
                if _self_attr(t) and isinstance(n.value, ast.Name) and n.value.id == "iteration_limit":
                    limit = t.attr
    if limit is None:
        raise AnalysisError("InstanceGenerator.__init__: attribute holding iteration_limit not found")
    it = None
    step = None
    nxtf = ctx.norm.flat(nxt)
    for n in own_nodes(nxtf.node):
        tg = n.target if isinstance(n, ast.AugAssign) else n.targets[0] if isinstance(n, ast.Assign) and len(n.targets) == 1 else None
        if tg is not None and _self_attr(tg):
            k = step_of(ctx, nxtf, n, f"self.{tg.attr}")
            if k in (1, -1):
                it, step = tg.attr, k
    ROLE["step"] = step
    for n in own_nodes(nxt.node) if it is None else []:
        if isinstance(n, ast.Compare):
            n = ctx.norm.xexpr(nxt, n)  # local aliases of the attributes expanded
            attrs = [_self_attr(x) for x in [n.left] + list(n.comparators)]
            if limit in attrs:
                others = [a for a in attrs if a and a != limit]
                if others:
                    it = others[0]
    counter = namer = None
    for c in cone:
        for m_raw in c.methods.values():
            # private steps (also those of a bundled state object) are undone
            m = ctx.norm.flat(m_raw) if any(
                isinstance(x, ast.Call) and isinstance(x.func, ast.Attribute) and isinstance(x.func.value, ast.Name) and x.func.value.id == "self"
                and x.func.attr.startswith("_") for x in own_nodes(m_raw.node)
            ) else m_raw
            incs = []
            for a in own_nodes(m.node):
                tg = a.target if isinstance(a, ast.AugAssign) else a.targets[0] if isinstance(a, ast.Assign) and len(a.targets) == 1 else None
                if tg is not None and _self_attr(tg) and step_of(ctx, m, a, f"self.{tg.attr}") is not None:
                    incs.append(tg.attr)
            rets = [r for r in own_nodes(m.node) if isinstance(r, ast.Return) and r.value is not None]
            for attr in incs:
                if any(isinstance(r.value, (ast.JoinedStr, ast.BinOp, ast.Call)) and any(_self_attr(x) == attr for x in ast.walk(r.value)) for r in rets):
                    counter, namer = attr, m
    ROLE.update(limit=limit, iter=it, counter=counter, namer=namer)


_DRAW_ONE = ("choice", "randint", "randrange")


def _distinct_machines(ctx, cro_raw, op_cls):
    """R19.h on the flattened create_random_operation: whatever reaches
    Operation(machines=<list>) is not sampled with replacement."""
    chk, repo = ctx.chk, ctx.repo
    cro = ctx.norm.flat(cro_raw)
    defs = ctx.flow.defs(cro)
    n_sites = 0
    for n in own_nodes(cro.node):
        if not (isinstance(n, ast.Call) and repo.resolve(cro_raw.module.name, dotted(n.func) or "") == op_cls.qualname):
            continue
        marg = next((k.value for k in n.keywords if k.arg == "machines"), n.args[0] if n.args else None)
        if marg is None:
            continue
        # names the argument is computed from (transitively, by name)
        names, work, exprs = set(), [marg], [marg]
        while work:
            e = work.pop()
            for x in ast.walk(e):
                if isinstance(x, ast.Name) and x.id not in names:
                    names.add(x.id)
                    for d in defs.of(x.id):
                        if d[0] == "value" and d[1] is not None:
                            work.append(d[1])
                            exprs.append(d[1])
        n_sites += 1
        bad = False
        for e in exprs:
            for c in ast.walk(e):
                if isinstance(c, ast.Call) and isinstance(c.func, ast.Attribute) and c.func.attr == "choices":
                    bad = True
                    chk.violation(
                        "R19.h", cro, c,
                        f"the machines of an operation are drawn with `{ast.unparse(c)[:70]}`: choices() samples with "
                        "replacement, so an operation can list the same machine twice and fewer distinct machines "
                        "than requested",
                        loc=cro.loc(c),
                    )
        # lists filled one draw at a time inside a loop
        for loop in own_nodes(cro.node):
            if not isinstance(loop, (ast.For, ast.While)):
                continue
            body_calls = [c for st in loop.body for c in ast.walk(st) if isinstance(c, ast.Call) and isinstance(c.func, ast.Attribute)]
            for c in body_calls:
                if c.func.attr not in ("append", "add") or not isinstance(c.func.value, ast.Name) or c.func.value.id not in names or not c.args:
                    continue
                drawn = c.args[0]
                dexpr = drawn
                if isinstance(drawn, ast.Name):
                    ds = [d[1] for d in defs.of(drawn.id) if d[0] == "value" and d[1] is not None]
                    dexpr = ds[-1] if ds else drawn
                if not (isinstance(dexpr, ast.Call) and isinstance(dexpr.func, ast.Attribute) and dexpr.func.attr in _DRAW_ONE):
                    continue
                dtxt = ast.unparse(drawn)
                removed = any(
                    k.func.attr in ("remove", "discard", "pop") and k.args and dtxt in ast.unparse(k.args[0])
                    for k in body_calls
                ) or any(
                    isinstance(t, ast.Compare) and any(isinstance(o, (ast.NotIn, ast.In)) for o in t.ops) and dtxt in ast.unparse(t)
                    for st in loop.body for t in ast.walk(st)
                )
                if removed:
                    chk.ok("R19.h", cro.qualname, cro.loc(c), f"`{dtxt}` is removed from the pool (or tested for membership) before the next draw")
                else:
                    bad = True
                    chk.violation(
                        "R19.h", cro, c,
                        f"`{dtxt}` is drawn with {dexpr.func.attr}() in a loop and appended, but never removed from the "
                        "pool nor tested for membership: the same machine can be drawn again",
                        loc=cro.loc(c),
                    )
        if not bad:
            chk.ok("R19.h", cro.qualname, cro.loc(n), "no with-replacement draw reaches Operation(machines=...)")
    chk.floor("R19.h", n_sites, 1, "Operation constructions in create_random_operation")


def _config_is_read_only(ctx, base, cone):
    """R19.i - the n-th instance must be drawn from the *requested* ranges:
    a generator method other than a constructor that assigns one of the
    generator's attributes (besides the counter / iteration state / the RNG
    object's own evolution) changes what later calls produce."""
    from ..lifecycle import Lifecycle

    chk = ctx.chk
    lc = Lifecycle(ctx)
    allowed = {ROLE["counter"], ROLE["iter"]} - {None}
    n = 0
    bad = False
    for c in cone:
        for m in c.methods.values():
            if m.name == "__init__" or m.cls is not c:
                continue
            # a private step that only the constructors run is constructor code
            inits = {k.methods["__init__"] for k in cone if "__init__" in k.methods}
            if m.name.startswith("_") and inits and only_called_from(ctx, m, inits):
                continue
            # a public method the pinned tree does not have is new API: no existing caller runs it, and what
            # generate / the iterator protocol reach through it is judged from there
            from ..baseline_api import PUBLIC_CALLABLES

            if not m.name.startswith("_") and not any(f"{k.name}.{m.name}" in PUBLIC_CALLABLES for k in cone):
                chk.notes.append(f"observation: {c.qualname}.{m.name} is not part of the pinned public surface; judged only where pinned methods call it")
                continue
            n += 1
            for w in lc.attr_writes(m, c):
                if w.fi.name == "__init__" or w.attr in allowed or w.attr in RNG_ATTRS:
                    continue
                bad = True
                chk.violation(
                    "R19.i", f"{c.qualname}.{m.name}", w.event.node,
                    f"{m.name} writes the generator's configuration (`{w.text}`): the change persists, so instances generated "
                    "afterwards are no longer drawn from the requested ranges",
                    loc=w.loc,
                )
                break
    if not bad:
        chk.ok("R19.i", base.qualname, "", f"{n} non-constructor methods write only {sorted(allowed)}")


def _jobs_vs_machines(ctx, generate_raw):
    chk = ctx.chk
    flag = "allow_less_jobs_than_machines"
    generate = ctx.norm.flat(generate_raw, depth=4)
    defs = ctx.flow.defs(generate)

    def closure_exprs(e):
        """e and every expression its names are defined from (by name, all definitions)."""
        seen, work, out = set(), [e], []
        while work:
            cur = work.pop()
            out.append(cur)
            for x in ast.walk(cur):
                if isinstance(x, ast.Name) and x.id not in seen:
                    seen.add(x.id)
                    for d in defs.of(x.id):
                        if d[1] is not None:
                            work.append(d[1])
        return out, seen

    def _attr_or_property(x, attr):
        """x is `<obj>.attr`, or a property of the generator whose getter reads `self.attr`
        (min_num_machines -> num_machines_range[0])"""
        if not isinstance(x, ast.Attribute):
            return False
        if x.attr == attr:
            return True
        if isinstance(x.value, ast.Name) and x.value.id == "self" and generate_raw.cls is not None:
            pt = ctx.repo.method(generate_raw.cls, x.attr)
            if pt is not None and pt.is_property:
                return any(isinstance(y, ast.Attribute) and y.attr == attr for y in own_nodes(pt.node))
        return False

    def from_attr(e, attr):
        return any(_attr_or_property(x, attr) for c in closure_exprs(e)[0] for x in ast.walk(c))

    def from_jobs(e):
        """depends on the *actual* job count: the `num_jobs` parameter / the value drawn
        for it.  (The range's maximum alone, `self.max_num_jobs`, is not the job count.)"""
        exprs, names = closure_exprs(e)
        # (a local renamed apart by the normaliser, `num_jobs__i3`, is still the job count)
        import re as _re

        return any(_re.sub(r"__[a-z]+\d+$", "", nm) == "num_jobs" for nm in names)

    randints = [
        n for n in own_nodes(generate.node)
        if isinstance(n, ast.Call) and isinstance(n.func, ast.Attribute) and n.func.attr == "randint" and len(n.args) == 2
    ]
    draws = [n for n in randints if from_attr(n.args[0], "num_machines_range") or from_attr(n.args[1], "num_machines_range")]
    if len(draws) > 1:
        # one draw per branch of the flag: the draw that runs only when fewer
        # jobs than machines are allowed needs no cap
        def under_flag(n):
            child, cur = n, generate.module.parents.get(n)
            while cur is not None and cur is not generate.node:
                if isinstance(cur, ast.If):
                    t = ast.unparse(cur.test)
                    if t == f"self.{flag}" and child in cur.body:
                        return True
                    if t == f"not self.{flag}" and child in cur.orelse:
                        return True
                child, cur = cur, generate.module.parents.get(cur)
            return False

        draws = [d for d in draws if not under_flag(d)]
    if len(draws) != 1:
        raise AnalysisError("generate: sampling of the machine count from num_machines_range not recognised")
    lo, hi = draws[0].args

    def capped(e):
        """a `min(...)` with an operand that depends on the job count among the definitions of e"""
        for c in closure_exprs(e)[0]:
            for x in ast.walk(c):
                if isinstance(x, ast.Call) and isinstance(x.func, ast.Name) and x.func.id == "min" and any(from_jobs(a) and not from_attr(a, "num_machines_range") for a in x.args):
                    return x
        return None

    flag_seen = any(isinstance(n, ast.If) and (flag in ast.unparse(n.test) or flag in ctx.norm.xtext(generate, n.test)) for n in own_nodes(generate.node)) or any(
        isinstance(n, ast.IfExp) and (flag in ast.unparse(n.test) or flag in ctx.norm.xtext(generate, n.test)) for n in own_nodes(generate.node))
    hc, lc_ = capped(hi), capped(lo)
    # the cap of the lower bound in the repaired code is min(lower, upper): it inherits
    # the job count only through the (already capped) upper bound
    lo_direct = None
    for c in closure_exprs(lo)[0]:
        for x in ast.walk(c):
            if isinstance(x, ast.Call) and isinstance(x.func, ast.Name) and x.func.id == "min" and any(
                (isinstance(a, ast.Name) and a.id.split("__")[0] == "num_jobs") or (isinstance(a, ast.Name) and from_attr(a, "num_jobs_range") and not from_attr(a, "num_machines_range"))
                for a in x.args
            ):
                lo_direct = x
    if hc is not None and flag_seen:
        chk.ok("R19.b", generate.qualname, generate.loc(hc), "upper bound of the machine draw capped by min(job count, ...)")
    elif lo_direct is not None:
        chk.violation(
            "R19.b", generate, lo_direct,
            f"with {flag}=False the *lower* bound of the machine count is clamped "
            f"(`{ast.unparse(lo_direct)}`) and the upper bound is left alone: instances with more "
            "machines than jobs are still generated",
            loc=generate.loc(lo_direct),
        )
    else:
        chk.violation("R19.b", generate, draws[0], f"the sampled machine count is never capped by the job count when {flag} is False", loc=generate.loc(draws[0]))
    del lc_
    # explicit request: raising guard evaluated after num_jobs is known
    eng = ctx.engine(
        relevant=lambda e: e.kind == "raise", max_depth=3,
        inline_filter=lambda t: t.name.startswith("_") and t.cls is not None and t.cls.qualname in generate_raw.cls.mro,
    )
    seen_guard = False
    for p in eng.paths(generate_raw, generate_raw.cls):
        drew = None
        for i, e in enumerate(p.events):
            if e.kind == "write" and e.data.get("local") and e.data.get("root") == "num_jobs" and e.frame.parent is None:
                drew = i
            if e.kind == "branch":
                t = e.data.get("text", "")
                if "num_jobs" in t and "num_machines" in t and ("<" in t or ">" in t):
                    seen_guard = True
                    if drew is None and any(
                        x.kind == "write" and x.data.get("root") == "num_jobs" and x.frame.parent is None for x in p.events[i:]
                    ):
                        chk.violation(
                            "R19.b", generate, e.node,
                            "the jobs-vs-machines check of an explicit request runs before num_jobs is drawn: "
                            "generate(num_machines=M) with a sampled job count below M is accepted",
                            loc=e.loc,
                        )
                        return
    if seen_guard:
        chk.ok("R19.b", generate.qualname, generate.loc(), "explicit (num_jobs, num_machines) requests are checked after the job count is known")
    else:
        chk.violation("R19.b", generate, None, f"an explicit num_machines above num_jobs is not rejected when {flag} is False")


def _iterator(ctx, base):
    """R19.e for both spellings of the protocol:
    count-up    S from 0, +1 per instance, stop when limit is set and S >= limit
    count-down  S from the limit, -1 per instance (when a limit is set), stop when S is set and S <= 0"""
    from .common import path_atoms

    chk = ctx.chk
    nxt, it = base.methods.get("__next__"), base.methods.get("__iter__")
    init = base.methods.get("__init__")
    if nxt is None or it is None or init is None:
        raise AnalysisError("InstanceGenerator.__init__/__iter__/__next__ vanished")
    S, LIM, step = ROLE["iter"], ROLE["limit"], ROLE.get("step")
    if S is None or step not in (1, -1):
        chk.violation("R19.e", nxt, None, "__next__ advances the iteration count 0 times per yielded instance (must be once, by one)")
        return
    st_txt, lim_txt = f"self.{S}", f"self.{LIM}"
    eng = ctx.engine(relevant=lambda e: True, max_depth=1)
    ok = True
    n_ret = 0
    saw_stop = False
    from .common import path_feasible

    for p in eng.paths(nxt, base):
        if not path_feasible(p.events):
            continue
        atoms = path_atoms(ctx, p.events)
        steps = [
            e for e in p.events
            if e.kind == "write" and not e.data.get("local") and S in (e.data.get("chain") or [])
        ]
        if step == 1:
            limited = atoms.get(f"{lim_txt} is None") is False
            reached = atoms.get(f"{st_txt} < {lim_txt}") is False
            unlimited = atoms.get(f"{lim_txt} is None") is True
        else:
            limited = atoms.get(f"{st_txt} is None") is False
            reached = (
                atoms.get(f"0 < {st_txt}") is False or atoms.get(f"0 == {st_txt}") is True or atoms.get(f"{st_txt} == 0") is True
                or atoms.get(f"{st_txt} < 1") is True
            )
            unlimited = atoms.get(f"{st_txt} is None") is True
        if p.outcome == "raise":
            if p.events[-1].data.get("exc") != "StopIteration":
                ok = False
                chk.violation("R19.e", nxt, p.events[-1].node, "__next__ raises something other than StopIteration", loc=p.events[-1].loc)
                continue
            saw_stop = True
            if steps:
                ok = False
                chk.violation("R19.e", nxt, steps[0].node, "the iteration count advances on the StopIteration path", loc=steps[0].loc)
            if not (limited and reached):
                strict = step == 1 and atoms.get(f"{lim_txt} < {st_txt}") is True
                ok = False
                chk.violation(
                    "R19.e", nxt, p.events[-1].node,
                    "StopIteration is raised under a condition other than `limit is not None and current >= limit`"
                    + (" (the comparison is strict: one instance too many is yielded)" if strict else ""),
                    loc=p.events[-1].loc,
                )
                break
            continue
        n_ret += 1
        if limited and reached:
            ok = False
            chk.violation("R19.e", nxt, p.events[-1].node, "__next__ yields an instance although the iteration limit is reached", loc=p.events[-1].loc)
            break
        want_steps = 0 if (step == -1 and unlimited) else 1
        good = len(steps) == want_steps and all(step_of(ctx, e.fi, e.node, st_txt) == step for e in steps)
        if not good:
            ok = False
            chk.violation("R19.e", nxt, steps[0].node if steps else None, f"__next__ advances the iteration count {len(steps)} times per yielded instance (must be once, by one)")
            break
        rv = p.events[-1].data.get("value") if p.events and p.events[-1].kind == "return" else None
        if rv is None or ctx.norm.xtext(nxt, rv) != "self.generate()":
            ok = False
            chk.violation("R19.e", nxt, rv, f"__next__ does not return self.generate() (returns `{ctx.norm.xtext(nxt, rv) if rv is not None else None}`)")
            break
    if not saw_stop and ok:
        ok = False
        chk.violation("R19.e", nxt, None, "no StopIteration guard `limit is not None and current >= limit`")
    if ok and n_ret:
        chk.ok("R19.e", nxt.qualname, nxt.loc(), "StopIteration at the limit; one step per instance; returns generate()" + (" (count-down form)" if step == -1 else ""))

    # the state starts (constructor) and restarts (__iter__) at the same initial value
    def initial_ok(fi, v):
        if v is None:
            return False
        if step == 1:
            return isinstance(v, ast.Constant) and v.value == 0
        t = ctx.norm.xtext(fi, v)
        return t in (lim_txt, "iteration_limit")

    def store_of(fi):
        for n in own_nodes(fi.node):
            tgs = n.targets if isinstance(n, ast.Assign) else [n.target] if isinstance(n, ast.AnnAssign) and n.value is not None else []
            if any(_self_attr(t) == S for t in tgs):
                return n
        return None

    if store_of(it) is None:
        it = ctx.norm.flat(it)  # the restart may sit in a private step
    if store_of(init) is None:
        init = ctx.norm.flat(init)
    w_it, w_init = store_of(it), store_of(init)
    r_ok = any(isinstance(n, ast.Return) and n.value is not None and ast.unparse(n.value) == "self" for n in own_nodes(it.node))
    if w_it is not None and initial_ok(it, w_it.value) and r_ok and w_init is not None and initial_ok(init, w_init.value):
        chk.ok("R19.e", it.qualname, it.loc(), "restarts the iteration count, returns self")
    else:
        chk.violation("R19.e", it, w_it, "__iter__ does not restart the iteration count at its initial value and return self: a second pass yields a different number of instances")
    ln = base.methods.get("__len__")
    if ln is not None:
        rets = [n for n in own_nodes(ln.node) if isinstance(n, ast.Return)]
        if rets and all(ctx.norm.xtext(ln, r.value) == lim_txt for r in rets):
            chk.ok("R19.e", ln.qualname, ln.loc(), "len = iteration limit")
        else:
            chk.violation("R19.e", ln, rets[-1] if rets else None, "__len__ is not the iteration limit")


def _pool_and_shape(ctx, gen_cls, generate_raw, cro):
    chk = ctx.chk
    generate = ctx.norm.flat(generate_raw, depth=4)
    defs = ctx.flow.defs(generate)
    parents = generate.module.parents

    def closure_names_attrs(e):
        seen, attrs, work = set(), set(), [e]
        while work:
            cur = work.pop()
            for x in ast.walk(cur):
                if isinstance(x, ast.Attribute):
                    attrs.add(x.attr)
                if isinstance(x, ast.Name) and x.id not in seen:
                    seen.add(x.id)
                    for d in defs.of(x.id):
                        if d[1] is not None:
                            work.append(d[1])
        return seen, attrs

    def from_jobs(e):
        n, a = closure_names_attrs(e)
        return "num_jobs" in n or "num_jobs_range" in a

    def from_machines(e):
        n, a = closure_names_attrs(e)
        return "num_machines" in n or "num_machines_range" in a

    def range_count(it):
        """X when the iterable is range(X), directly or through local aliases."""
        x = ctx.norm.xexpr(generate, it)
        if isinstance(x, ast.Call) and isinstance(x.func, ast.Name) and x.func.id == "range" and len(x.args) == 1:
            return x.args[0]
        return None

    sites = [
        n for n in own_nodes(generate.node)
        if isinstance(n, ast.Call) and isinstance(n.func, ast.Attribute) and n.func.attr == "create_random_operation"
    ]
    if len(sites) != 1:
        raise AnalysisError("generate: exactly one create_random_operation call site expected")
    site = sites[0]
    # enclosing iterations (innermost first) and conditions
    iters, conds = [], []
    child, cur = site, parents.get(site)
    while cur is not None and cur is not generate.node:
        if isinstance(cur, ast.For) and child in cur.body:
            iters.append((cur, cur.iter))
        elif isinstance(cur, (ast.ListComp, ast.GeneratorExp)):
            for g in reversed(cur.generators):
                iters.append((cur, g.iter))
                conds += list(g.ifs)
        elif isinstance(cur, (ast.If, ast.While)):
            conds.append(cur.test)
        child, cur = cur, parents.get(cur)
    if len(iters) != 2:
        raise AnalysisError(f"generate: {len(iters)} iteration levels around create_random_operation (2 expected: jobs x operations)")
    (inner_node, inner_it), (o, outer_it) = iters
    mcount, jcount = range_count(inner_it), range_count(outer_it)
    def plain(e):
        # the count itself (a variable / record field), not an expression computed from it
        return isinstance(e, (ast.Name, ast.Attribute))

    shape_ok = (
        mcount is not None and jcount is not None and plain(mcount) and plain(jcount)
        and from_machines(mcount) and from_jobs(jcount)
    )
    xt = lambda e: ctx.norm.xtext(generate, e).replace(" ", "")  # noqa: E731
    if shape_ok:
        chk.ok("R19.g", generate_raw.qualname, generate.loc(o), "one job per step of range(<job count>), one operation per step of range(<machine count>)")
    else:
        chk.violation(
            "R19.g", generate_raw, o,
            f"jobs are built over `{xt(outer_it)}` x `{xt(inner_it)}` instead of "
            "range(num_jobs) x range(num_machines): wrong number of jobs or operations per job",
            loc=generate.loc(o),
        )
    skips = bool(conds) or any(isinstance(n, (ast.Break, ast.Continue)) for n in ast.walk(o))
    # loop form: exactly one append per level; the per-job list is created inside the job loop
    once = True
    if isinstance(inner_node, ast.For):
        apps = [n for n in ast.walk(inner_node) if isinstance(n, ast.Call) and isinstance(n.func, ast.Attribute) and n.func.attr == "append"]
        once = len(apps) == 1
        if once and isinstance(apps[0].func.value, ast.Name) and isinstance(o, ast.For):
            lst = apps[0].func.value.id
            fresh = any(
                isinstance(n, (ast.Assign, ast.AnnAssign)) and n.value is not None and isinstance(n.value, ast.List) and not n.value.elts
                and any(isinstance(t, ast.Name) and t.id == lst for t in (n.targets if isinstance(n, ast.Assign) else [n.target]))
                for n in o.body
            )
            if not fresh:
                chk.violation("R19.g", generate_raw, o, "the per-job operation list is not re-created for each job", loc=generate.loc(o))
    if isinstance(o, ast.For):
        japps = [
            st for st in o.body if isinstance(st, ast.Expr) and isinstance(st.value, ast.Call) and isinstance(st.value.func, ast.Attribute)
            and st.value.func.attr == "append" and isinstance(st.value.func.value, ast.Name)
        ]
        once = once and len(japps) == 1
    if once and not skips:
        chk.ok("R19.g", generate_raw.qualname, generate.loc(o), "one job per step, one operation per inner step")
    else:
        chk.violation("R19.g", generate_raw, o, "jobs/operations are not appended exactly once per loop step", loc=generate.loc(o))
    # sizes and durations from the configured ranges
    want = {"num_jobs": "num_jobs_range", "duration": "duration_range"}
    croF = ctx.norm.flat(cro, depth=3)
    # the draws by role: the value used as `duration=` of the Operation built in
    # create_random_operation; the job count is the draw assigned to (an alias of)
    # the public parameter `num_jobs`
    dur_names = set()
    for c_ in own_nodes(croF.node):
        if isinstance(c_, ast.Call) and ast.unparse(c_.func).split(".")[-1] == "Operation":
            dv = next((k.value for k in c_.keywords if k.arg == "duration"), c_.args[1] if len(c_.args) > 1 else None)
            if isinstance(dv, ast.Name):
                dur_names.add(dv.id)
    for m, (var, rng) in ((generate, ("num_jobs", "num_jobs_range")), (croF, ("duration", "duration_range"))):
        hit = False
        for n in own_nodes(m.node):
            is_var = isinstance(n, ast.Assign) and isinstance(n.targets[0], ast.Name) and (
                n.targets[0].id.split("__")[0] == var or (var == "duration" and n.targets[0].id in dur_names))
            if is_var and isinstance(n.value, ast.Call):
                c = n.value
                if isinstance(c.func, ast.Attribute) and c.func.attr == "randint":
                    hit = True
                    a = ast.unparse(c)
                    # randint(lo, hi) with `lo, hi = self.<range>` (the bounds unpacked by a drawing helper)
                    unpacked = False
                    if len(c.args) == 2 and all(isinstance(x, ast.Name) for x in c.args):
                        for u in own_nodes(m.node):
                            if (
                                isinstance(u, ast.Assign) and len(u.targets) == 1 and isinstance(u.targets[0], ast.Tuple)
                                and [ast.unparse(e_) for e_ in u.targets[0].elts] == [c.args[0].id, c.args[1].id]
                                and ctx.norm.xtext(m, u.value) == f"self.{rng}"
                            ):
                                unpacked = True
                    if unpacked or f"*self.{rng}" in a or (f"self.{rng}[0]" in a and f"self.{rng}[1]" in a):
                        chk.ok("R19.g", m.qualname, m.loc(n), f"{var} ~ randint(*self.{rng})")
                    else:
                        chk.violation("R19.g", m, n, f"`{var}` is drawn as `{a}`, not from self.{rng}", loc=m.loc(n))
        if not hit:
            raise AnalysisError(f"{m.qualname}: draw of {var} not recognised")
    # R19.f pool: re-created for every job from the machine count
    parg = site.args[0] if site.args else next((kw.value for kw in site.keywords), None)
    if not isinstance(parg, ast.Name):
        raise AnalysisError("generate: pool passed to create_random_operation not recognised")
    pool = parg.id
    pdefs = [n for n in own_nodes(generate.node) if isinstance(n, (ast.Assign, ast.AnnAssign)) and n.value is not None
             and any(isinstance(t, ast.Name) and t.id == pool for t in (n.targets if isinstance(n, ast.Assign) else [n.target]))]

    def inside(n, container):
        c = parents.get(n)
        while c is not None and c is not generate.node:
            if c is container:
                return True
            c = parents.get(c)
        return False

    in_loop = [n for n in pdefs if inside(n, o) and not inside(n, inner_node)] if isinstance(o, ast.For) else []

    def fresh_full_pool(v):
        """list(range(<machine count>)), possibly through one-level copies of a
        template that is itself that list/range and is never mutated or handed out."""
        x = v
        for _ in range(3):
            if isinstance(x, ast.Call) and isinstance(x.func, ast.Attribute) and x.func.attr == "copy" and not x.args:
                x = x.func.value
            elif isinstance(x, ast.Call) and isinstance(x.func, ast.Name) and x.func.id == "list" and len(x.args) == 1 and not isinstance(x.args[0], ast.Call):
                x = x.args[0]
            elif isinstance(x, ast.Subscript) and isinstance(x.slice, ast.Slice) and x.slice.lower is None and x.slice.upper is None and x.slice.step is None:
                x = x.value
            else:
                break
        if isinstance(x, ast.Name) and x is not v:
            root = x.id
            touched = [
                c for c in own_nodes(generate.node)
                if isinstance(c, ast.Call) and (
                    (isinstance(c.func, ast.Attribute) and isinstance(c.func.value, ast.Name) and c.func.value.id == root
                     and c.func.attr in ("remove", "pop", "append", "extend", "clear", "sort", "reverse", "insert"))
                    or any(isinstance(a, ast.Name) and a.id == root for a in list(c.args) + [kw.value for kw in c.keywords])
                    and not (isinstance(c.func, ast.Name) and c.func.id in ("list", "len", "tuple", "sorted", "range"))
                )
            ]
            if touched:
                return False
        full = ctx.norm.xexpr(generate, x if x is not v else v)
        if isinstance(full, ast.Call) and isinstance(full.func, ast.Name) and full.func.id == "list" and len(full.args) == 1:
            if x is v or True:
                full = full.args[0]
        elif x is v:
            return False  # the pool itself must be a fresh list, not a shared range/list
        return isinstance(full, ast.Call) and isinstance(full.func, ast.Name) and full.func.id == "range" and len(full.args) == 1 and from_machines(full.args[0])

    if in_loop and all(fresh_full_pool(n.value) for n in in_loop):
        chk.ok("R19.f", generate_raw.qualname, generate.loc(in_loop[0]), "machine pool re-created for every job")
    else:
        chk.violation(
            "R19.f", generate_raw, o,
            f"the machine pool `{pool}` is not re-created as list(range(num_machines)) for each job: from the "
            "second job on the pool is exhausted or stale",
            loc=generate.loc(o),
        )
    # judged on the flattened create_random_operation (the private
    # single-machine helper inlined), so its name does not matter
    one = ctx.norm.flat(cro, depth=4)
    rm = None
    ok_rm = False
    choices = [
        n for n in own_nodes(one.node)
        if isinstance(n, ast.Assign) and isinstance(n.value, ast.Call) and isinstance(n.value.func, ast.Attribute)
        and n.value.func.attr == "choice" and n.value.args
    ]
    for n in own_nodes(one.node):
        if isinstance(n, ast.If) and ctx.norm.xtext(one, n.test).replace(" ", "") in ("notself.allow_recirculation", "self.allow_recirculationisFalse"):
            for m in n.body:
                if isinstance(m, ast.Expr) and isinstance(m.value, ast.Call) and isinstance(m.value.func, ast.Attribute) and m.value.func.attr == "remove" and m.value.args:
                    rm = m.value
                    for c in choices:
                        if ast.unparse(rm.args[0]) == ast.unparse(c.targets[0]) and ast.unparse(rm.func.value) == ast.unparse(c.value.args[0]):
                            ok_rm = True
    if ok_rm:
        chk.ok("R19.f", one.qualname, one.loc(rm), "chosen machine removed from the pool when recirculation is off")
    else:
        chk.violation("R19.f", one, rm, "without recirculation the chosen machine is not removed from the pool it was drawn from: a job can visit a machine twice")
