"""C16 - graph encodings are faithful (structural clauses).

R16.a  symmetric pairing: in every undirected-edge builder each
       ``add_edge(a, b, **kw)`` is paired with ``add_edge(b, a, **kw)``.
R16.b  edge typing and direction: disjunctive builders / solved-graph machine
       arcs use EdgeType.DISJUNCTIVE; conjunctive and source/sink edges use
       CONJUNCTIVE; conjunctive edges go position i-1 -> i over all
       consecutive pairs; source -> first and last -> sink of every job.
R16.c  builder composition: every graph builder calls exactly the building
       blocks its definition prescribes (must-call and must-not-call sets),
       node blocks before the edge blocks that use them, on a
       JobShopGraph(instance) it returns.
R16.d  node id = operation id: operation nodes are added first, in job-major
       order, ids come from a counter starting at 0 that only add_node
       advances by one; per-machine / per-job indexes cover every eligible
       machine of an operation.
R16.e  edge blocks enumerate all their pairs: machine/job node loops over the
       whole node list, operations of a machine through nodes_by_machine (all
       eligible machines), combinations(…, 2) for cliques; the solved graph
       adds one arc per consecutive pair of every machine sequence.
R16.f  no truthiness test on an id (0 is a valid node/operation/machine id).
R16.g  ``JobShopGraph.add_edge`` adds (or overwrites) the edge with its
       attributes on every non-raising path.
R16.h  no function of these modules modifies the object of a mutable default
       argument (directly, through a local alias, or with ``+=``): the result
       of a call must not depend on earlier calls.
R16.i  no for-loop variable of these modules is read after its loop (a statement
       left one indentation level too shallow sees only the last element).
R16.j  no closure created in a loop of these modules keeps the loop variable by
       reference (late binding) - every kept closure would see the last value.
"""

from __future__ import annotations

import ast

from ..repo import AnalysisError, FuncInfo, dotted, own_nodes
from .common import only_called_from, source_pos, step_of
from .roles import node_counter_attr

MANIFEST = {
    "text": (
        "Decides the structural clauses of C16 for every instance: all "
        "undirected edge builders add both directions with identical "
        "attributes; edge types and directions match the definitions; each of "
        "the five graph builders calls exactly its prescribed building blocks "
        "(and none of the excluded ones), node blocks first; operation nodes "
        "are created first in job-major order with ids from a 0-based counter, "
        "so node id = operation id, and the per-machine index covers every "
        "eligible machine; edge blocks enumerate all their pairs; the solved "
        "graph adds one DISJUNCTIVE arc per consecutive pair of each machine "
        "sequence; ids are never tested for truthiness; add_edge always writes "
        "the edge. Not decided: the edge sets as values, acyclicity and "
        "critical-path length of the solved graph."
        " Also decided: no function of these modules accumulates into a mutable default argument."
        " Also decided: no for-loop variable of these modules is read after its loop (statement left one indentation level too shallow)."
        " Also decided: no closure created in a loop keeps the loop variable by reference (late binding)."
    ),
    "note": "networkx's DiGraph semantics (add_edge overwrites attributes) are trusted.",
    "technique": "call-pair matching, must-call / must-not-call composition tables, loop-shape matching, typed truthiness lint",
    "ref": "DESIGN.md §3 C16",
}
UNDECIDED = [
    "exact edge/node sets as values; acyclicity of the solved graph; longest path = makespan (needs evaluation on schedules)",
]
ASSUMPTIONS = ["networkx.DiGraph.add_edge adds or overwrites the edge with the given attributes"]

UNDIRECTED = [
    "add_disjunctive_edges", "add_same_job_operations_edges", "add_operation_machine_edges", "add_machine_machine_edges",
    "add_operation_job_edges", "add_job_job_edges", "add_machine_global_edges", "add_job_global_edges",
]
COMPOSITION = {
    "build_disjunctive_graph": (
        {"add_disjunctive_edges", "add_conjunctive_edges", "add_source_sink_nodes", "add_source_sink_edges"}, set()),
    "build_solved_disjunctive_graph": (
        {"add_conjunctive_edges", "add_source_sink_nodes", "add_source_sink_edges"}, {"add_disjunctive_edges"}),
    "build_agent_task_graph": (
        {"add_machine_nodes", "add_operation_machine_edges", "add_machine_machine_edges", "add_same_job_operations_edges"},
        {"add_job_nodes", "add_global_node"}),
    "build_agent_task_graph_with_jobs": (
        {"add_machine_nodes", "add_operation_machine_edges", "add_machine_machine_edges", "add_job_nodes",
         "add_operation_job_edges", "add_job_job_edges"},
        {"add_global_node", "add_same_job_operations_edges"}),
    "build_complete_agent_task_graph": (
        {"add_machine_nodes", "add_operation_machine_edges", "add_job_nodes", "add_operation_job_edges", "add_global_node",
         "add_machine_global_edges", "add_job_global_edges"},
        {"add_machine_machine_edges", "add_job_job_edges", "add_same_job_operations_edges"}),
}
ORDER = [
    ("add_machine_nodes", ["add_operation_machine_edges", "add_machine_machine_edges", "add_machine_global_edges"]),
    ("add_job_nodes", ["add_operation_job_edges", "add_job_job_edges", "add_job_global_edges"]),
    ("add_global_node", ["add_machine_global_edges", "add_job_global_edges"]),
    ("add_source_sink_nodes", ["add_source_sink_edges"]),
]
ALL_BLOCKS = set().union(*[a | b for a, b in COMPOSITION.values()])


def _edge_calls(fi):
    return [
        n for n in own_nodes(fi.node)
        if isinstance(n, ast.Call) and isinstance(n.func, ast.Attribute) and n.func.attr == "add_edge"
    ]


def _kw(call):
    return tuple(sorted((k.arg or "**", ast.unparse(k.value)) for k in call.keywords))


def _etype(call):
    for k in call.keywords:
        if k.arg == "type":
            return ast.unparse(k.value).split(".")[-1]
    return None


def run(ctx):
    chk, repo = ctx.chk, ctx.repo
    from .common import check_late_binding

    check_late_binding(ctx, "R16.j", ("job_shop_lib.graphs",), "the graph")
    from .common import check_loop_variable_leaks

    check_loop_variable_leaks(ctx, "R16.i", ("job_shop_lib.graphs",), "the graph")
    for rid, txt in (
        ("R16.a", "undirected builders add (a,b) and (b,a) with identical attributes"),
        ("R16.b", "edge types and directions: DISJUNCTIVE for machine relations, CONJUNCTIVE i-1 -> i and source/sink"),
        ("R16.c", "each graph builder calls exactly its prescribed building blocks, node blocks before edge blocks"),
        ("R16.d", "operation nodes first, job-major, ids from a 0-based counter advanced only by add_node; indexes cover all eligible machines"),
        ("R16.e", "edge blocks enumerate all pairs / members; solved graph: one arc per consecutive pair of every machine sequence"),
        ("R16.f", "no truthiness test on an id"),
        ("R16.g", "JobShopGraph.add_edge writes the edge with its attributes on every non-raising path"),
    ):
        chk.rule(rid, txt)
    fn = {}
    raw = {}
    for name in set(UNDIRECTED) | ALL_BLOCKS | set(COMPOSITION) | {"add_conjunctive_edges", "add_source_sink_edges"}:
        try:
            raw[name] = repo.find_function(name)
        except AnalysisError:
            raise AnalysisError(f"graph building block {name} vanished")
        # helper extractions are undone for the edge/node blocks; the builders'
        # composition is judged on the original call list
        fn[name] = raw[name] if name in COMPOSITION and name != "build_solved_disjunctive_graph" else ctx.norm.flat(raw[name], depth=4)

    # ---------------------------------------------------------------- R16.h
    from .common import check_mutable_defaults

    check_mutable_defaults(ctx, "R16.h", ("job_shop_lib.graphs",), "the graph")

    # ---------------------------------------------------------------- R16.a
    for name in UNDIRECTED:
        f = fn[name]
        calls = _edge_calls(f)
        if not calls:
            chk.violation("R16.a", f, None, f"{name} adds no edge at all")
            continue
        # endpoints with single-definition locals expanded (`tail, head = (u, v)`)
        pairs = [(ctx.norm.xtext(f, c.args[0]), ctx.norm.xtext(f, c.args[1]), _kw(c), c) for c in calls if len(c.args) >= 2]
        unmatched = []
        for a, b, kw, c in pairs:
            if not any(a2 == b and b2 == a and kw2 == kw for a2, b2, kw2, _ in pairs):
                unmatched.append((a, b, kw, c))
        if unmatched:
            a, b, kw, c = unmatched[0]
            # endpoints produced by a generator (lazily described arcs): which
            # pairs are emitted is decided inside the generator, out of sight
            for lp in _enclosing_loops(f, c):
                itx = ctx.norm.xexpr(f, lp.iter)
                if isinstance(itx, ast.Call):
                    ts, _n = ctx.res.callees(f, itx, f.cls)
                    if any(any(isinstance(y, (ast.Yield, ast.YieldFrom)) for y in ast.walk(t.node)) for t in ts if not isinstance(t.node, ast.Lambda)):
                        raise AnalysisError(
                            f"{f.loc(c)}: {name} takes its edge endpoints from a generator (`{ast.unparse(lp.iter)[:50]}`): "
                            "the set of pairs is not visible at the add_edge call, the symmetry rule is not evaluated"
                        )
            # endpoints taken as ready-made pairs from a collection (`for u, v in pairs: add_edge(u, v)`): whether
            # every pair has its reverse is a fact about that collection - unless it is one of the
            # enumerators known to yield each unordered pair once
            for lp in _enclosing_loops(f, c):
                tg = lp.target
                if isinstance(tg, ast.Tuple) and len(tg.elts) == 2 and [ast.unparse(e_) for e_ in tg.elts] == [ast.unparse(c.args[0]), ast.unparse(c.args[1])]:
                    itx = ctx.norm.xexpr(f, lp.iter)
                    one_way = isinstance(itx, ast.Call) and (dotted(itx.func) or "").split(".")[-1] in ("combinations", "pairwise", "zip", "product", "permutations")
                    if not one_way:
                        raise AnalysisError(
                            f"{f.loc(c)}: {name} takes ready-made (tail, head) pairs from `{ast.unparse(lp.iter)[:50]}`; whether that "
                            "collection holds every pair in both directions is not visible at the add_edge call, the symmetry rule is not evaluated"
                        )
            rev = [x for x in pairs if x[0] == b and x[1] == a]
            why = "with different attributes" if rev else "at all"
            chk.violation(
                "R16.a", f, c,
                f"{name} adds the edge ({a} -> {b}) but not its reverse ({b} -> {a}) {why}: the relation is "
                "undirected and must be encoded in both directions identically",
                loc=f.loc(c),
            )
        else:
            # both calls must sit in the same block (same loop iteration)
            par = {id(f.module.parents.get(f.module.parents.get(c))) for *_, c in pairs}
            if len(par) != 1:
                chk.violation("R16.a", f, calls[0], f"{name}: the two directions are added under different conditions", loc=f.loc(calls[0]))
            else:
                chk.ok("R16.a", f.qualname, f.loc(calls[0]), f"{len(pairs) // 2} symmetric pair(s)")

    # ---------------------------------------------------------------- R16.b
    f = fn["add_disjunctive_edges"]
    for c in _edge_calls(f):
        if _etype(c) != "DISJUNCTIVE":
            chk.violation("R16.b", f, c, f"disjunctive edge typed `{_etype(c)}`", loc=f.loc(c))
        else:
            chk.ok("R16.b", f.qualname, f.loc(c), "type=DISJUNCTIVE")
    f = fn["add_conjunctive_edges"]
    cc = _edge_calls(f)
    if len(cc) != 1:
        raise AnalysisError("add_conjunctive_edges: exactly one add_edge expected")
    c = cc[0]
    loops = _enclosing_loops(f, c)
    from .c03 import _position_of

    def pos(e):
        x = ctx.norm.xexpr(f, e)
        return _position_of(ctx, f, x)

    pa, pb = pos(c.args[0]), pos(c.args[1])
    its = [ctx.norm.xtext(f, lp.iter).replace(" ", "") for lp in loops]
    if _etype(c) != "CONJUNCTIVE":
        chk.violation("R16.b", f, c, f"conjunctive edge typed `{_etype(c)}`", loc=f.loc(c))
    elif pa is None or pb is None:
        raise AnalysisError(f"{f.loc(c)}: endpoints of the conjunctive edge not recognised")
    elif not (pa[0] == pb[0] and pa[1] == pb[1] and pb[2] == pa[2] + 1):
        chk.violation(
            "R16.b", f, c,
            f"conjunctive edge goes {ast.unparse(c.args[0])} -> {ast.unparse(c.args[1])}, not from a position to the next one of the same job",
            loc=f.loc(c),
        )
    else:
        lst = pa[0]
        if pa[1] == "#pairs":
            cover = True
        else:
            lo, hi = pa[2], pb[2]
            want = {f"range({-lo},len({lst}){'-' + str(hi) if hi > 0 else ''})"}
            if lo == 0:
                want.add(f"range(len({lst})-{hi})")
            cover = bool(its) and its[0] in want
        all_jobs = any(t.endswith("nodes_by_job") for t in its)
        if cover and all_jobs:
            chk.ok("R16.b", f.qualname, f.loc(c), "position i -> i+1 for every consecutive pair of every job, CONJUNCTIVE")
        else:
            chk.violation(
                "R16.b", f, c,
                f"conjunctive edges are added over `{its[0] if its else '?'}`, not over every "
                "consecutive pair of every job",
                loc=f.loc(c),
            )
    f = fn["add_source_sink_edges"]
    cc = _edge_calls(f)
    okd = {"src": False, "snk": False}
    def role(e):
        """'SOURCE' / 'SINK' when the endpoint is the node of that type
        (nodes_by_type[NodeType.X][0], whatever the local is called)."""
        t = ctx.norm.xtext(f, e).replace(" ", "")
        for r in ("SOURCE", "SINK"):
            if f"nodes_by_type[NodeType.{r}]" in t:
                return r
        return None

    for c in cc:
        a, b = ctx.norm.xtext(f, c.args[0]), ctx.norm.xtext(f, c.args[1])
        if _etype(c) != "CONJUNCTIVE":
            chk.violation("R16.b", f, c, f"source/sink edge typed `{_etype(c)}`", loc=f.loc(c))
        if role(c.args[0]) == "SOURCE" and b.endswith("[0]"):
            okd["src"] = True
        elif role(c.args[1]) == "SINK" and a.endswith("[-1]"):
            okd["snk"] = True
        else:
            chk.violation("R16.b", f, c, f"source/sink edge {a} -> {b}: must be source -> first operation and last operation -> sink", loc=f.loc(c))
    lp = _enclosing_loops(f, cc[0]) if cc else []
    if all(okd.values()) and lp and ast.unparse(lp[-1].iter).endswith("nodes_by_job"):
        chk.ok("R16.b", f.qualname, f.loc(), "source -> first, last -> sink for every job")
    elif not all(okd.values()):
        chk.violation("R16.b", f, None, "source -> first / last -> sink edges are not both added")
    # solved graph machine arcs
    sg = fn["build_solved_disjunctive_graph"]
    arcs = _edge_calls(sg)
    if len(arcs) != 1:
        raise AnalysisError("build_solved_disjunctive_graph: exactly one direct add_edge expected")
    arc = arcs[0]
    if _etype(arc) != "DISJUNCTIVE":
        chk.violation("R16.b", sg, arc, f"machine-order arc typed `{_etype(arc)}`", loc=sg.loc(arc))
    else:
        chk.ok("R16.b", sg.qualname, sg.loc(arc), "machine-order arcs typed DISJUNCTIVE")
    ctx.attempt(_solved_pairs, ctx, sg, arc)

    # ---------------------------------------------------------------- R16.c
    for bname, (must, mustnot) in COMPOSITION.items():
        # private grouping helpers inlined; the public blocks stay calls (also when a call passes them a new argument)
        f = ctx.norm.flat(raw[bname], depth=4, keep=tuple(sorted(r_.qualname for k_, r_ in raw.items() if k_ != bname)))
        called = []
        _pos = source_pos(f.node)
        for n in own_nodes(f.node):
            if isinstance(n, ast.Call) and isinstance(n.func, ast.Name):
                q = repo.resolve(f.module.name, n.func.id)
                if q and q.split(".")[-1] in (ALL_BLOCKS | {"add_conjunctive_edges", "add_source_sink_edges"}):
                    called.append((_pos(n), q.split(".")[-1], n))
        called.sort()
        # a call that passes a block an argument its pinned signature does not
        # have is new API surface (`add_disjunctive_edges(graph, schedule)`:
        # the oriented edges of a solved graph), not the block the composition
        # table speaks of - unless the builder is required to call that block
        from ..baseline_api import BASELINE_PARAMS

        def pinned_call(nm, call):
            bp = BASELINE_PARAMS.get(nm)
            if bp is None or "*" in bp or "**" in bp:
                return True
            return len(call.args) <= len(bp) and all(k.arg is None or k.arg in bp for k in call.keywords)

        called = [c for c in called if c[1] in must or pinned_call(c[1], c[2])]
        names = [c[1] for c in called]
        missing = must - set(names)
        extra = set(names) & mustnot
        dup = {x for x in names if names.count(x) > 1}
        cond = [c for c in called if not isinstance(f.module.parents.get(f.module.parents.get(c[2])), (ast.FunctionDef,))]
        bad = False
        if missing:
            # delegation to a private builder object / class: what it calls is
            # not visible in this function - refuse instead of reporting
            deleg = [
                n for n in own_nodes(f.node)
                if isinstance(n, ast.Call) and (q := repo.resolve(f.module.name, dotted(n.func) or "")) and q in repo.classes
                and q.split(".")[-1] not in ("JobShopGraph", "Node")
            ]
            if deleg:
                raise AnalysisError(
                    f"{f.loc(deleg[0])}: {bname} delegates the assembly to `{ast.unparse(deleg[0].func)}` (a builder object): which "
                    "building blocks run, and in which order, is decided by method calls on that object that are not traced"
                )
            bad = True
            chk.violation("R16.c", f, None, f"{bname} does not call {sorted(missing)}: the graph lacks those nodes/edges")
        if extra:
            bad = True
            x = [c for c in called if c[1] in extra][0]
            chk.violation("R16.c", f, x[2], f"{bname} calls {sorted(extra)}, which its definition excludes", loc=f.loc(x[2]))
        if dup:
            bad = True
            chk.violation("R16.c", f, None, f"{bname} calls {sorted(dup)} more than once (duplicate nodes)")
        if cond and not bad:
            bad = True
            chk.violation("R16.c", f, cond[0][2], f"{bname} calls {cond[0][1]} conditionally", loc=f.loc(cond[0][2]))
        for first, users in ORDER:
            if first in names:
                for u in users:
                    if u in names and names.index(u) < names.index(first):
                        bad = True
                        x = [c for c in called if c[1] == u][0]
                        chk.violation("R16.c", f, x[2], f"{bname} calls {u} before {first}: the nodes it connects do not exist yet", loc=f.loc(x[2]))
        # JobShopGraph.add_edge overwrites the attributes of an existing edge
        # (R16.g), so where a job arc and a machine relation coincide (two
        # consecutive operations of a job on the same machine) the type written
        # LAST wins: the conjunctive edges must be added after the disjunctive ones
        if "add_disjunctive_edges" in names and "add_conjunctive_edges" in names and names.index("add_conjunctive_edges") < names.index("add_disjunctive_edges"):
            bad = True
            x = [c for c in called if c[1] == "add_disjunctive_edges"][0]
            chk.violation(
                "R16.c", f, x[2],
                f"{bname} adds the disjunctive edges after the conjunctive ones: add_edge overwrites the type of an existing "
                "edge, so the job arc between two consecutive operations that share a machine ends up typed DISJUNCTIVE",
                loc=f.loc(x[2]),
            )
        # graph = JobShopGraph(instance) ... return graph
        ctor = [n for n in own_nodes(f.node) if isinstance(n, ast.Call) and ast.unparse(n.func) == "JobShopGraph"]
        if len(ctor) != 1 or any(k.arg == "add_operation_nodes" for k in ctor[0].keywords) or len(ctor[0].args) > 1:
            bad = True
            chk.violation("R16.c", f, ctor[0] if ctor else None, f"{bname} does not start from JobShopGraph(instance) with operation nodes")
        if not bad:
            chk.ok("R16.c", f.qualname, f.loc(), f"calls {names}")

    # ---------------------------------------------------------------- R16.d
    ctx.attempt(_node_ids, ctx)

    # ---------------------------------------------------------------- R16.e
    ctx.attempt(_enumeration, ctx, fn)

    # ---------------------------------------------------------------- R16.f
    n_t = falsy_id_tests(ctx, "R16.f", lambda fi: fi.module.name.startswith("job_shop_lib.graphs"))
    if not any(i["rule"] == "R16.f" for i in chk.instances):
        chk.ok("R16.f", "job_shop_lib.graphs", "", f"{n_t} boolean tests inspected, none on an id")

    # ---------------------------------------------------------------- R16.g
    g = repo.find_class("JobShopGraph")
    ae = g.methods.get("add_edge")
    if ae is None:
        raise AnalysisError("JobShopGraph.add_edge vanished")
    eng = ctx.engine(relevant=lambda e: False, max_depth=0)
    bad = False
    n = 0
    for p in eng.paths(ae, g):
        if p.outcome == "raise":
            continue
        n += 1
        def _is_graph(r):
            if ast.unparse(r) == "self.graph":
                return True
            if isinstance(r, ast.Name):  # `graph = self.graph` bound once
                ds = ctx.flow.defs(ae).of(r.id)
                return len(ds) == 1 and ds[0][0] == "value" and ast.unparse(ds[0][1]) == "self.graph"
            return False

        w = [e for e in p.events if e.kind == "call" and e.data.get("attr") == "add_edge" and e.data.get("recv") is not None and _is_graph(e.data.get("recv"))]
        if len(w) != 1:
            bad = True
            chk.violation(
                "R16.g", ae, p.events[-1].node if p.events else None,
                "a non-raising path of JobShopGraph.add_edge returns without writing the edge: when the edge already "
                "exists its attributes (e.g. the CONJUNCTIVE type of a job arc between two operations sharing a "
                "machine) are silently kept from the earlier call",
                path=p.describe(),
            )
            break
        c = w[0].node
        if not any(k.arg is None and ast.unparse(k.value) == "attr" for k in c.keywords):
            bad = True
            chk.violation("R16.g", ae, c, "the edge attributes (**attr) are not forwarded to the graph", loc=ae.loc(c))
            break
    if not bad:
        chk.ok("R16.g", ae.qualname, ae.loc(), f"{n} non-raising paths write the edge with **attr")


def _enclosing_loops(fi, node):
    out = []
    cur = fi.module.parents.get(node)
    while cur is not None and cur is not fi.node:
        if isinstance(cur, (ast.For, ast.While)):
            out.append(cur)
        cur = fi.module.parents.get(cur)
    return out


def _solved_pairs(ctx, sg, arc):
    """One arc per consecutive pair of every machine sequence."""
    chk = ctx.chk
    loops = _enclosing_loops(sg, arc)
    a = ast.unparse(arc.args[0])
    b = ast.unparse(arc.args[1])
    for lp in loops:
        it_txt = ctx.norm.xtext(sg, lp.iter)
        for tab in ("nodes_by_machine", "operations_by_machine"):
            if tab in it_txt:
                chk.violation(
                    "R16.e", sg, lp,
                    f"the machine sequences of the solved graph are taken from `{it_txt[:60]}`, i.e. from which machines an "
                    "operation *may* run on, not from the schedule's machine lists (where it *did* run): for flexible "
                    "operations arcs are added on machines the operation was never assigned to",
                    loc=sg.loc(lp),
                )
                return
    if len(loops) != 2 or not ctx.norm.xtext(sg, loops[1].iter).endswith("schedule.schedule"):
        raise AnalysisError("build_solved_disjunctive_graph: machine-sequence loops not recognised")
    inner = loops[0]
    import re as _re

    MS = loops[1].target.id if isinstance(loops[1].target, ast.Name) else "machine_schedule"

    def C(t):
        """the machine-sequence loop variable spelled canonically"""
        return _re.sub(r"(?<![A-Za-z0-9_])" + _re.escape(MS) + r"(?![A-Za-z0-9_])", "machine_schedule", t)

    it = C(ctx.norm.xtext(sg, inner.iter).replace(" ", ""))
    defs = ctx.flow.defs(sg)
    ok = False
    # consecutive pairs of the projected ids: pairwise([so.operation.operation_id for so in machine_schedule])
    # with the arc drawn between the two elements of the pair
    xit = ctx.norm.xexpr(sg, inner.iter)
    if (
        isinstance(xit, ast.Call) and (dotted(xit.func) or "").split(".")[-1] == "pairwise" and len(xit.args) == 1
        and isinstance(xit.args[0], (ast.ListComp, ast.GeneratorExp)) and len(xit.args[0].generators) == 1
        and not xit.args[0].generators[0].ifs and isinstance(xit.args[0].generators[0].target, ast.Name)
        and C(ast.unparse(xit.args[0].generators[0].iter)) == "machine_schedule"
        and isinstance(inner.target, ast.Tuple) and len(inner.target.elts) == 2 and all(isinstance(e, ast.Name) for e in inner.target.elts)
    ):
        comp = xit.args[0]
        v = comp.generators[0].target.id
        direct = isinstance(sg.module.parents.get(sg.module.parents.get(arc)), ast.For)
        if ast.unparse(comp.elt) == f"{v}.operation.operation_id" and direct and (a, b) == (inner.target.elts[0].id, inner.target.elts[1].id):
            chk.ok("R16.e", sg.qualname, sg.loc(arc), "one arc per consecutive pair of every machine sequence, by operation id (pairs of the projected ids)")
        else:
            chk.violation(
                "R16.e", sg, arc,
                f"the arcs ({a}, {b}) over `{ast.unparse(xit)[:70]}` are not one arc from each operation id to the next one of the machine sequence",
                loc=sg.loc(arc),
            )
        return
    if it == "enumerate(machine_schedule)":
        iv = inner.target.elts[0].id
        cur = inner.target.elts[1].id
        # guard `if i + 1 >= len(machine_schedule): break` and next = machine_schedule[i + 1]
        guard = any(
            isinstance(n, ast.If) and C(ast.unparse(n.test).replace(" ", "")) in (f"{iv}+1>=len(machine_schedule)", f"{iv}>=len(machine_schedule)-1", f"{iv}+1==len(machine_schedule)")
            and any(isinstance(x, (ast.Break, ast.Continue)) for x in n.body)
            for n in inner.body
        )
        nxt = [d for d in defs.of(b.split(".")[0]) if d[0] == "value"]
        nxt_ok = len(nxt) == 1 and C(ast.unparse(nxt[0][1]).replace(" ", "")) == f"machine_schedule[{iv}+1]"
        direct = isinstance(sg.module.parents.get(sg.module.parents.get(arc)), ast.For)
        ok = guard and nxt_ok and a.startswith(cur + ".") and direct
    elif it.startswith("range(") and isinstance(inner.target, ast.Name) and isinstance(inner.iter, ast.Call):
        # index loop: range(len(S) - 1) with (S[i], S[i + 1]) or range(1, len(S)) with (S[i - 1], S[i]);
        # S is the machine sequence or an in-order projection of it to operation ids
        iv = inner.target.id

        class _Len(ast.NodeTransformer):
            """len([f(v) for v in S]) == len(S) when the comprehension has no filter"""
            def visit_Call(self, node):
                self.generic_visit(node)
                if (
                    isinstance(node.func, ast.Name) and node.func.id == "len" and len(node.args) == 1
                    and isinstance(node.args[0], (ast.ListComp, ast.GeneratorExp)) and len(node.args[0].generators) == 1
                    and not node.args[0].generators[0].ifs
                ):
                    return ast.Call(func=node.func, args=[node.args[0].generators[0].iter], keywords=[])
                return node

        import copy as _copy

        rargs = [
            ast.unparse(_Len().visit(_copy.deepcopy(ctx.norm.xexpr(sg, x)))).replace(" ", "")
            for x in inner.iter.args
        ]

        def seq_of(e):
            """(sequence text, index text, projected?) of an arc argument."""
            x = ctx.norm.xexpr(sg, e)
            proj = False
            if isinstance(x, ast.Attribute) and ast.unparse(x).endswith(".operation.operation_id"):
                x = x.value.value  # the element
            else:
                proj = True
            if not isinstance(x, ast.Subscript):
                return None
            base, idx = x.value, ast.unparse(x.slice).replace(" ", "")
            bt = ast.unparse(base)
            if proj:
                # base must be [<v>.operation.operation_id for <v> in machine_schedule]
                if not (
                    isinstance(base, ast.ListComp) and len(base.generators) == 1 and not base.generators[0].ifs
                    and ast.unparse(base.elt) == f"{ast.unparse(base.generators[0].target)}.operation.operation_id"
                ):
                    return None
                bt = ast.unparse(base.generators[0].iter)
            return bt, idx

        sa, sb = seq_of(arc.args[0]), seq_of(arc.args[1])
        direct = isinstance(sg.module.parents.get(sg.module.parents.get(arc)), ast.For)
        if sa and sb and C(sa[0]) == C(sb[0]) == "machine_schedule" and direct:
            n_txt = [f"len({t})" for t in ("machine_schedule",)]
            lens = {"len(machine_schedule)"} | {
                f"len({ast.unparse(t)})" for n in own_nodes(sg.node) if isinstance(n, ast.Assign) and isinstance(n.value, ast.ListComp)
                and len(n.value.generators) == 1 and C(ast.unparse(n.value.generators[0].iter)) == "machine_schedule" for t in n.targets
            }
            rargs = [C(r) for r in rargs]
            low = (len(rargs) == 1 and any(rargs[0] == f"{ln}-1" for ln in lens) and (sa[1], sb[1]) == (iv, f"{iv}+1"))
            high = (len(rargs) == 2 and rargs[0] == "1" and rargs[1] in lens and (sa[1], sb[1]) == (f"{iv}-1", iv))
            ok = low or high
            if ok:
                chk.ok("R16.e", sg.qualname, sg.loc(arc), "one arc per consecutive pair of every machine sequence, by operation id (index loop)")
                return
        if not (sa and sb):
            raise AnalysisError("build_solved_disjunctive_graph: pairing of consecutive operations not recognised (index loop)")
        chk.violation(
            "R16.e", sg, arc,
            f"the index loop `{it}` with arc ({ast.unparse(arc.args[0])}, {ast.unparse(arc.args[1])}) does not visit exactly the "
            "consecutive pairs of each machine sequence",
            loc=sg.loc(arc),
        )
        return
    elif it in ("zip(machine_schedule,machine_schedule[1:])", "itertools.pairwise(machine_schedule)", "pairwise(machine_schedule)"):
        t = inner.target
        direct = isinstance(sg.module.parents.get(sg.module.parents.get(arc)), ast.For)
        # endpoints bound to locals first (`tail, head = (cur.…id, nxt.…id)`) are expanded
        a, b = ctx.norm.xtext(sg, arc.args[0]), ctx.norm.xtext(sg, arc.args[1])
        ok = isinstance(t, ast.Tuple) and a.startswith(t.elts[0].id + ".") and b.startswith(t.elts[1].id + ".") and direct
    else:
        # a previous-variable formulation: every arc must be unconditional
        # except for "no previous yet" tested with `is None`
        ifs = [n for n in ast.walk(inner) if isinstance(n, ast.If)]
        for n in ifs:
            t = n.test
            if isinstance(t, ast.Name) or (isinstance(t, ast.UnaryOp) and isinstance(t.operand, ast.Name)):
                nm = t.id if isinstance(t, ast.Name) else t.operand.id
                chk.violation(
                    "R16.e", sg, t,
                    f"the arc to the next operation is guarded by the truthiness of `{nm}`: operation id 0 is falsy, so "
                    "the machine arc leaving operation 0 is never added",
                    loc=sg.loc(n),
                )
                return
        raise AnalysisError("build_solved_disjunctive_graph: pairing of consecutive operations not recognised")
    if ok and a.endswith("operation.operation_id") and b.endswith("operation.operation_id"):
        chk.ok("R16.e", sg.qualname, sg.loc(arc), "one arc per consecutive pair of every machine sequence, by operation id")
    else:
        chk.violation(
            "R16.e", sg, arc,
            "the solved graph does not add exactly one arc between every pair of consecutive operations of each "
            "machine sequence (by operation id)",
            loc=sg.loc(arc),
        )


COUNTER = ["self._next_node_id"]


def _node_ids(ctx):
    chk, repo = ctx.chk, ctx.repo
    COUNTER[0] = "self." + node_counter_attr(ctx)
    g = repo.find_class("JobShopGraph")
    init, addn, addops = g.methods.get("__init__"), g.methods.get("add_node"), g.methods.get("add_operation_nodes")
    if None in (init, addn, addops):
        raise AnalysisError("JobShopGraph.__init__/add_node/add_operation_nodes vanished")
    addn_raw = addn
    addn, addops = ctx.norm.flat(addn), ctx.norm.flat(addops)
    # counter: initialised 0 in __init__, advanced by one only in add_node, after assignment
    ok = True
    C = COUNTER[0]
    for m in g.methods.values():
        mf = ctx.norm.flat(m) if m is not init else m
        for n in own_nodes(m.node):
            is_write = (isinstance(n, ast.Assign) and len(n.targets) == 1 and ast.unparse(n.targets[0]) == C) or (
                isinstance(n, ast.AugAssign) and ast.unparse(n.target) == C)
            if not is_write:
                continue
            if m is init and isinstance(n, ast.Assign) and isinstance(n.value, ast.Constant) and n.value.value == 0:
                continue
            k = step_of(ctx, m, n, C)
            owned = m is addn_raw or only_called_from(ctx, m, {addn_raw})
            if k == 1 and owned:
                continue
            ok = False
            if isinstance(n, ast.Assign) and k is None:
                chk.violation("R16.d", m, n, f"the node id counter is rebound by `{ast.unparse(n)}`: ids no longer start at 0 / are reused", loc=m.loc(n))
            else:
                chk.violation("R16.d", m, n, f"the node id counter is changed by `{ast.unparse(n)}` outside add_node / not by one", loc=m.loc(n))
    pos = source_pos(addn.node)
    assign = [n for n in own_nodes(addn.node) if isinstance(n, ast.Assign) and ast.unparse(n.targets[0]).endswith(".node_id")]
    inc = [n for n in own_nodes(addn.node) if step_of(ctx, addn, n, C) == 1]
    if not assign or ctx.norm.xtext(addn, assign[0].value) != C or not inc or pos(inc[0]) < pos(assign[0]):
        ok = False
        chk.violation("R16.d", addn, assign[0] if assign else None, "add_node does not assign the current counter value before advancing it: node ids do not start at 0")
    # every node consumes exactly one id: on each non-raising path of add_node
    # (private steps inlined) the counter is advanced once
    attr_c = C.split(".", 1)[1]
    eng = ctx.engine(
        relevant=lambda e: e.kind == "write" and not e.data.get("local"), max_depth=3,
        inline_filter=lambda t: t.cls is not None and t.cls.qualname in g.mro and t.name.startswith("_"),
    )
    for p in eng.paths(addn_raw, g):
        if p.outcome == "raise":
            continue
        steps = [e for e in p.events if e.kind == "write" and not e.data.get("local") and (e.data.get("chain") or [None])[0] == attr_c and e.data.get("root") == "self"]
        if len(steps) != 1:
            ok = False
            chk.violation(
                "R16.d", addn_raw, steps[0].node if steps else None,
                f"a path through add_node advances the node id counter {len(steps)} times: ids are only consecutive (and equal to "
                "the position in `nodes`) if every added node consumes exactly one",
                path=p.describe(),
            )
            break
    # removed_nodes grows with every node
    if not any(isinstance(n, ast.Call) and ctx.norm.xtext(addn, n.func) == "self.removed_nodes.append" and ast.unparse(n.args[0]) == "False" for n in own_nodes(addn.node)):
        ok = False
        chk.violation("R16.d", addn, None, "add_node does not extend removed_nodes with False: the mask is shorter than the node list")
    # the graph node key is the node id
    gn = [n for n in own_nodes(addn.node) if isinstance(n, ast.Call) and ctx.norm.xtext(addn, n.func) == "self.graph.add_node"]
    node_p = addn_raw.params[1]
    key_ok = False
    if gn and gn[0].args:
        kt = ctx.norm.xtext(addn, gn[0].args[0])
        key_ok = kt.endswith(".node_id") or (kt == C and inc and pos(gn[0]) < pos(inc[0]))
    if not key_ok:
        ok = False
        chk.violation("R16.d", addn, gn[0] if gn else None, "the networkx node key is not the node id")
    del node_p
    # indexes: by job and by every eligible machine
    node_param = addn_raw.params[1]
    xt = lambda e: ctx.norm.xtext(addn, e)  # noqa: E731
    idx_job = False
    idx_m = False

    def backing(prop_name, default):
        """self.<attr> behind the public property (so private renames do not matter)."""
        m = g.methods.get(prop_name)
        if m is not None:
            for r in own_nodes(m.node):
                if isinstance(r, ast.Return) and isinstance(r.value, ast.Attribute) and isinstance(r.value.value, ast.Name) and r.value.value.id == "self":
                    return "self." + r.value.attr
        return default

    T_JOB, T_MACH = backing("nodes_by_job", "self._nodes_by_job"), backing("nodes_by_machine", "self._nodes_by_machine")
    for n in own_nodes(addn.node):
        if isinstance(n, ast.Call) and isinstance(n.func, ast.Attribute) and n.func.attr == "append" and isinstance(n.func.value, ast.Subscript):
            tbl = xt(n.func.value.value)
            if tbl == T_JOB and xt(n.func.value.slice).endswith("operation.job_id") and n.args and xt(n.args[0]) == node_param:
                idx_job = True
        if isinstance(n, ast.For) and xt(n.iter).endswith("operation.machines") and isinstance(n.target, ast.Name):
            v = n.target.id
            for x in ast.walk(n):
                if (
                    isinstance(x, ast.Call) and isinstance(x.func, ast.Attribute) and x.func.attr == "append"
                    and isinstance(x.func.value, ast.Subscript) and xt(x.func.value.value) == T_MACH
                    and ast.unparse(x.func.value.slice) == v and x.args and xt(x.args[0]) == node_param
                ):
                    idx_m = True
    if not idx_job:
        ok = False
        chk.violation("R16.d", addn, None, "operation nodes are not indexed by job")
    if not idx_m:
        ok = False
        chk.violation(
            "R16.d", addn, None,
            "operation nodes are not indexed under every machine of operation.machines: flexible operations miss "
            "their disjunctive / operation-machine edges on the other eligible machines",
        )
    # operation nodes first: __init__ calls add_operation_nodes (default True) and nothing adds nodes before
    dflt = None
    a = init.node.args
    for p, d in zip(a.args[-len(a.defaults):], a.defaults):
        if p.arg == "add_operation_nodes":
            dflt = d
    calls = [n for n in own_nodes(init.node) if isinstance(n, ast.Call) and ast.unparse(n.func) == "self.add_operation_nodes"]
    if not (isinstance(dflt, ast.Constant) and dflt.value is True and calls):
        ok = False
        chk.violation("R16.d", init, None, "JobShopGraph does not add the operation nodes first by default")
    # job-major order, one node per operation
    fors = sorted([n for n in own_nodes(addops.node) if isinstance(n, ast.For)], key=source_pos(addops.node))
    # one loop over the flattened job list is the same traversal:
    # chain.from_iterable(jobs) / chain(*jobs) / a nested comprehension
    flat_iter = False
    if len(fors) == 1:
        it = ctx.norm.xexpr(addops, fors[0].iter)
        itx = ast.unparse(it).replace(" ", "")
        flat_iter = itx in (
            "itertools.chain.from_iterable(self.instance.jobs)", "chain.from_iterable(self.instance.jobs)",
            "itertools.chain(*self.instance.jobs)", "chain(*self.instance.jobs)",
        ) or (
            isinstance(it, (ast.ListComp, ast.GeneratorExp)) and len(it.generators) == 2 and not any(g.ifs for g in it.generators)
            and ast.unparse(it.generators[0].iter) == "self.instance.jobs"
            and ast.unparse(it.generators[1].iter) == ast.unparse(it.generators[0].target)
            and ast.unparse(it.elt) == ast.unparse(it.generators[1].target)
        )
        if flat_iter:
            fors = [fors[0], fors[0]]
    if not flat_iter and not (len(fors) == 2 and ast.unparse(fors[0].iter) == "self.instance.jobs" and ast.unparse(fors[1].iter) == ast.unparse(fors[0].target)):
        if fors and "jobs" not in ctx.norm.xtext(addops, fors[0].iter):
            ok = False
            chk.violation("R16.d", addops, fors[0], "operation nodes are not added in job-major order over instance.jobs")
        else:
            raise AnalysisError("add_operation_nodes: traversal of instance.jobs not recognised")
    else:
        body = fors[1].body
        mk = [n for n in ast.walk(fors[1]) if isinstance(n, ast.Call) and ast.unparse(n.func) == "Node"]
        add = [n for n in ast.walk(fors[1]) if isinstance(n, ast.Call) and ast.unparse(n.func) == "self.add_node"]
        if len(mk) != 1 or len(add) != 1 or not any(k.arg == "operation" and ast.unparse(k.value) == ast.unparse(fors[1].target) for k in mk[0].keywords):
            ok = False
            chk.violation("R16.d", addops, fors[1], "not exactly one OPERATION node per operation")
        elif any(isinstance(n, (ast.If, ast.Break, ast.Continue)) for n in ast.walk(fors[0])):
            ok = False
            chk.violation("R16.d", addops, fors[0], "operation nodes are added conditionally: node ids and operation ids drift apart")
    if ok:
        chk.ok("R16.d", g.qualname, addn.loc(), "ids 0.. in job-major order; indexes by job and by every eligible machine")


def _enumeration(ctx, fn):
    chk = ctx.chk
    want = {
        "add_disjunctive_edges": ("graph.nodes_by_machine", "itertools.combinations($v, 2)"),
        "add_same_job_operations_edges": ("graph.nodes_by_job", "itertools.combinations($v, 2)"),
        "add_machine_machine_edges": (None, "itertools.combinations(graph.nodes_by_type[NodeType.MACHINE], 2)"),
        "add_job_job_edges": (None, "itertools.combinations(graph.nodes_by_type[NodeType.JOB], 2)"),
        "add_machine_global_edges": (None, "graph.nodes_by_type[NodeType.MACHINE]"),
        "add_job_global_edges": (None, "graph.nodes_by_type[NodeType.JOB]"),
        "add_operation_machine_edges": ("graph.nodes_by_type[NodeType.MACHINE]", "graph.nodes_by_machine[$v.machine_id]"),
        "add_operation_job_edges": ("graph.nodes_by_type[NodeType.JOB]", "graph.nodes_by_job[$v.job_id]"),
    }
    for name, (outer, inner) in want.items():
        f = fn[name]
        calls = _edge_calls(f)
        if not calls:
            continue
        loops = _enclosing_loops(f, calls[0])
        defs = ctx.flow.defs(f)

        def it_text(lp):
            it = lp.iter
            # `for m, nodes in enumerate(graph.nodes_by_machine)`: the same walk with an index
            if (
                isinstance(it, ast.Call) and isinstance(it.func, ast.Name) and it.func.id == "enumerate" and it.args and not it.keywords
                and isinstance(lp.target, ast.Tuple) and len(lp.target.elts) == 2
            ):
                it = it.args[0]
            return ctx.norm.xtext(f, it)

        its = [it_text(lp) for lp in loops]
        # the outer loop's variable is spelled `$v` in the inner iterable, so
        # the comparison does not depend on how the variable is named
        outer_var = None
        if len(loops) == 2:
            tg = loops[1].target
            if isinstance(tg, ast.Name):
                outer_var = tg.id
            elif isinstance(tg, ast.Tuple) and len(tg.elts) == 2 and isinstance(tg.elts[1], ast.Name) and isinstance(loops[1].iter, ast.Call) \
                    and isinstance(loops[1].iter.func, ast.Name) and loops[1].iter.func.id == "enumerate":
                outer_var = tg.elts[1].id
        if outer_var is not None:
            import re as _re

            its[0] = _re.sub(r"(?<![A-Za-z0-9_])" + _re.escape(outer_var) + r"(?![A-Za-z0-9_])", "$v", its[0])
        # a triangular double loop over one list - `for i, a in enumerate(xs): for b in xs[i + 1:]`, also with
        # islice(xs, i + 1, None | len(xs) | i + 1 + len(xs)) - visits what combinations(xs, 2) visits, in that order
        if len(loops) == 3:
            lo_, mid_ = loops[0], loops[1]
            if (
                isinstance(mid_.iter, ast.Call) and isinstance(mid_.iter.func, ast.Name) and mid_.iter.func.id == "enumerate"
                and len(mid_.iter.args) == 1 and not mid_.iter.keywords and isinstance(mid_.iter.args[0], ast.Name)
                and isinstance(mid_.target, ast.Tuple) and len(mid_.target.elts) == 2 and isinstance(mid_.target.elts[0], ast.Name)
                and isinstance(loops[2].target, ast.Name) and loops[2].target.id == mid_.iter.args[0].id
            ):
                xs_, i_ = mid_.iter.args[0].id, mid_.target.elts[0].id
                it_ = ctx.norm.xexpr(f, lo_.iter)
                start_ = (f"{i_} + 1", f"1 + {i_}")
                tri = False
                if isinstance(it_, ast.Subscript) and isinstance(it_.value, ast.Name) and it_.value.id == xs_ and isinstance(it_.slice, ast.Slice) \
                        and it_.slice.lower is not None and ast.unparse(it_.slice.lower) in start_ and it_.slice.step is None \
                        and (it_.slice.upper is None or ast.unparse(it_.slice.upper) == f"len({xs_})"):
                    tri = True
                elif isinstance(it_, ast.Call) and (dotted(it_.func) or "").endswith("islice") and len(it_.args) == 3 and not it_.keywords \
                        and isinstance(it_.args[0], ast.Name) and it_.args[0].id == xs_ and ast.unparse(it_.args[1]) in start_ \
                        and ast.unparse(it_.args[2]) in ("None", f"len({xs_})", f"{i_} + 1 + len({xs_})"):
                    tri = True
                if tri:
                    its = ["itertools.combinations($v, 2)", its[2]]
        exp = [inner] + ([outer] if outer else [])
        bad_single = [
            n for n in own_nodes(f.node)
            if (isinstance(n, ast.Attribute) and n.attr == "machine_id" and ast.unparse(n.value) in ("operation", "operation_node.operation", "node.operation"))
            or (isinstance(n, ast.Subscript) and ast.unparse(n.value).endswith(".machines") and not isinstance(n.slice, ast.Slice))
        ]
        if bad_single:
            chk.violation(
                "R16.e", f, bad_single[0],
                f"{name} relates an operation to a single machine (`{ast.unparse(bad_single[0])}`): a flexible operation "
                "is connected to only one of its eligible machines",
                loc=f.loc(bad_single[0]),
            )
        elif its == exp and not any(isinstance(n, (ast.If, ast.Break, ast.Continue)) for lp in loops for n in ast.walk(lp)):
            chk.ok("R16.e", f.qualname, f.loc(calls[0]), f"enumerates {' x '.join(reversed(its))}")
        elif its == exp:
            chk.violation("R16.e", f, loops[0], f"{name} skips some pairs (conditional / early exit inside the enumeration)", loc=f.loc(loops[0]))
        else:
            # recognisably partial enumerations
            t = " ".join(its)
            if "[1:]" in t or "[:-1]" in t or "[:1]" in t or ", 3)" in t or "[0]" in t:
                chk.violation("R16.e", f, loops[0], f"{name} enumerates `{its}` instead of `{exp}`: some pairs/members are left out", loc=f.loc(loops[0]))
            else:
                # a window: islice(xs, a, b) / xs[a:b] whose upper bound is not
                # derived from the length of the list reaches only some partners
                win = None
                for lp in loops:
                    for x in ast.walk(lp.iter):
                        if isinstance(x, ast.Call) and (dotted(x.func) or "").endswith("islice") and len(x.args) >= 3:
                            win = (lp, x.args[2])
                        elif isinstance(x, ast.Subscript) and isinstance(x.slice, ast.Slice) and x.slice.upper is not None:
                            win = (lp, x.slice.upper)
                    # the iterable may be a local bound just before the loop
                    if win is None and isinstance(lp.iter, ast.Name):
                        for kind, value, _ in defs.of(lp.iter.id):
                            for x in ast.walk(value):
                                if isinstance(x, ast.Call) and (dotted(x.func) or "").endswith("islice") and len(x.args) >= 3:
                                    win = (lp, x.args[2])
                                elif isinstance(x, ast.Subscript) and isinstance(x.slice, ast.Slice) and x.slice.upper is not None:
                                    win = (lp, x.slice.upper)
                if win is not None and not ctx.flow.depends_on(
                    f, win[1], lambda x: isinstance(x, ast.Call) and isinstance(x.func, ast.Name) and x.func.id == "len"
                ):
                    chk.violation(
                        "R16.e", f, win[0],
                        f"{name} pairs each member only with those inside a window ending at `{ast.unparse(win[1])}`, a bound that is "
                        f"not the length of the list: pairs further apart get no edge (expected {exp})",
                        loc=f.loc(win[0]),
                    )
                else:
                    raise AnalysisError(f"{name}: enumeration {its} not recognised (expected {exp})")
    for name, tp, idattr, rng in (("add_machine_nodes", "MACHINE", "machine_id", "num_machines"), ("add_job_nodes", "JOB", "job_id", "num_jobs")):
        f = fn[name]
        fors = [n for n in own_nodes(f.node) if isinstance(n, ast.For)]
        mk = [n for n in own_nodes(f.node) if isinstance(n, ast.Call) and ast.unparse(n.func) == "Node"]
        if (
            len(fors) == 1 and ast.unparse(fors[0].iter) == f"range(graph.instance.{rng})" and len(mk) == 1
            and any(k.arg == idattr and ast.unparse(k.value) == ast.unparse(fors[0].target) for k in mk[0].keywords)
            and any(k.arg == "node_type" and ast.unparse(k.value).endswith(tp) for k in mk[0].keywords)
        ):
            chk.ok("R16.e", f.qualname, f.loc(), f"one {tp} node per id in range({rng}), ascending")
        else:
            chk.violation("R16.e", f, fors[0] if fors else None, f"{name} does not add exactly one {tp} node per id in range(instance.{rng}) in ascending order")


def falsy_id_tests(ctx, rule, scope):
    """Boolean-context uses of a value that is an id (int-typed, named *_id):
    0 is a valid id, so truthiness conflates it with None."""
    chk, repo = ctx.chk, ctx.repo
    n_tests = 0

    def is_id(fi, e):
        txt = ast.unparse(e)
        last = txt.split(".")[-1]
        if not (last.endswith("_id") or last in ("id", "node_id", "index") or last.endswith("_index") or last.endswith("_idx")):
            return False
        t = ctx.types.type_of(fi.module, e)
        if t is None:
            return True
        return "int" in t and "list" not in t and "dict" not in t

    for fi in repo.all_functions():
        if not scope(fi) or isinstance(fi.node, ast.Lambda):
            continue
        for n in own_nodes(fi.node):
            tests = []
            if isinstance(n, (ast.If, ast.While, ast.IfExp)):
                tests.append(n.test)
            elif isinstance(n, ast.BoolOp):
                tests += list(n.values[:-1]) if isinstance(n.op, ast.Or) else list(n.values)
            elif isinstance(n, ast.Assert):
                tests.append(n.test)
            for t in tests:
                n_tests += 1
                inner = t
                if isinstance(inner, ast.UnaryOp) and isinstance(inner.op, ast.Not):
                    inner = inner.operand
                if isinstance(inner, (ast.Name, ast.Attribute)) and is_id(fi, inner):
                    chk.violation(
                        rule, fi, t,
                        f"`{ast.unparse(t)}` tests the truthiness of an id: id 0 is treated like a missing value",
                        loc=fi.loc(t),
                    )
    return n_tests
