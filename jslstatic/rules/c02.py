"""C02 - forced start times, bookkeeping, replay (structural clauses).

R02.a  deterministic dispatch: nothing reachable from the dispatcher's
       constructor / dispatch / reset / start_time and Schedule.add / reset
       reads a nondeterministic or external source or module-level mutable
       state (subscriber callbacks excluded).
R02.b  reset completeness of the dispatcher and agreement of the
       initialising expressions of __init__ and reset (= R12.c).
R02.c  replay call sites forward both ``.operation`` and ``.machine_id`` of
       the same recorded ScheduledOperation, in history order.
R02.d  bookkeeping must-writes: on every accepted dispatch path, exactly once
       each: machine_next_available_time[machine of the scheduled op] =
       its end time; job_next_operation_index[its job] += 1;
       job_next_available_time[its job] = its end time - unconditionally.
R02.e  start-time sources: the start time given to the ScheduledOperation is
       ``self.start_time(operation, machine_id)`` of the same operation and
       machine, and ``start_time`` is the max of exactly the machine's and
       the job's next-available entries.
"""

from __future__ import annotations

import ast

from ..lifecycle import Lifecycle
from ..repo import AnalysisError, own_nodes
from .common import DISPATCHER, only_called_from, resolve_root
from .c12 import dispatcher_reset
from .roles import dispatcher_roles
from .c16 import falsy_id_tests

MANIFEST = {
    "text": (
        "Decides the purity, bookkeeping-shape and replay clauses of C02 for "
        "every history: the dispatch/reset call tree reads no random, clock, "
        "OS or module-global state, so the schedule is a function of the "
        "(operation, machine) sequence; reset re-establishes every attribute "
        "dispatch writes with the constructor's expressions, so a reset "
        "dispatcher replays like a fresh one; every accepted dispatch performs "
        "each of the three tracking updates exactly once, unconditionally, "
        "indexed by the scheduled operation's own job/machine and valued with "
        "its end time; the start time handed to the ScheduledOperation is "
        "start_time(operation, machine) whose value is the max of exactly the "
        "two next-available entries; replay sites forward operation and machine "
        "of the same record in order, and a recorded history is never modified in place by reset. Not decided: numerical equality of the "
        "tracking vectors and makespan with those derived from the schedule."
    ),
    "note": "start_time's recognised shape is max(a, b) (also via locals); any other shape is ANALYSIS-ERROR, never a violation.",
    "technique": "effect closure (nondeterminism), lifecycle write sets, path must-write automaton with frame-resolved index/value provenance",
    "ref": "DESIGN.md §3 C02",
}
UNDECIDED = [
    "equality of tracking vectors / scheduled count / makespan with the values implied by the schedule (arithmetic over runtime values)",
]
ASSUMPTIONS = ["subscriber callbacks are excluded from the purity closure (they cannot influence the schedule: C10 R10.f)"]


def _rel(e):
    return e.kind == "raise" or (e.kind == "write" and not e.data.get("local"))


def run(ctx):
    chk, repo = ctx.chk, ctx.repo
    for rid, txt in (
        ("R02.a", "the dispatch/reset call tree reads no nondeterministic, external or module-global mutable state"),
        ("R02.b", "Dispatcher.reset re-establishes every attribute dispatch writes, with the constructor's expressions"),
        ("R02.c", "replay sites dispatch (record.operation, record.machine_id) of the same record, in history order"),
        ("R02.d", "each accepted dispatch writes machine_next_available_time, job_next_operation_index (+= 1), job_next_available_time exactly once, unconditionally, for the scheduled operation's machine/job with its end time"),
        ("R02.e", "ScheduledOperation start = self.start_time(operation, machine_id); start_time = max(machine entry, job entry)"),
    ):
        chk.rule(rid, txt)
    disp = repo.find_class(DISPATCHER)
    sched = repo.find_class("Schedule")
    eff = ctx.effects

    # ---------------------------------------------------------------- R02.a
    obs = repo.find_class("DispatcherObserver")
    roots = [repo.need_method(disp, n) for n in ("__init__", "dispatch", "reset", "start_time")] + [
        repo.need_method(sched, n) for n in ("add", "reset", "__init__")
    ]
    # private helpers of the dispatch path are reached through the closure of
    # `dispatch`; they are listed as extra roots only while they exist
    roots += [m for m in disp.methods.values() if m.name.startswith("_") and not m.name.startswith("__") and only_called_from(ctx, m, {repo.need_method(disp, "dispatch")})]
    stop = lambda t: t.cls is not None and obs.qualname in t.cls.mro  # noqa: E731
    n_fn = 0
    for r in roots:
        cls = r.cls
        closure = eff.closure(r, cls, max_depth=6, stop=stop)
        n_fn += len(closure)
        nd = eff.nondet_reads(r, cls, max_depth=6, stop=stop)
        bad = False
        for f, ev, name, via in nd:
            bad = True
            chk.violation(
                "R02.a", r, ev.node,
                f"{r.name} reaches `{name}` (in {f.name}): the schedule is no longer a function of the "
                "(operation, machine) sequence, so a recorded history does not replay",
                loc=f.loc(ev.node), path=[*via, f.qualname],
            )
        # reads of module-level mutable state
        for f, rc, via in closure:
            for n in own_nodes(f.node):
                if isinstance(n, ast.Name) and isinstance(n.ctx, ast.Load):
                    mi = f.module
                    if n.id in mi.assigns and not ctx.flow.defs(f).of(n.id) and n.id not in f.params:
                        v = mi.assigns[n.id]
                        if isinstance(v, (ast.List, ast.Dict, ast.Set, ast.ListComp, ast.DictComp)) or (
                            isinstance(v, ast.Call) and ast.unparse(v.func) in ("list", "dict", "set", "defaultdict", "collections.defaultdict", "deque")
                        ):
                            bad = True
                            chk.violation(
                                "R02.a", r, n,
                                f"{f.name} reads the module-level mutable `{n.id}`: state survives across dispatchers and resets",
                                loc=f.loc(n), path=[*via, f.qualname],
                            )
        if not bad:
            chk.ok("R02.a", r.qualname, r.loc(), f"closure of {len(closure)} functions is deterministic")
    chk.analysed["purity_closure_functions"] = n_fn
    chk.floor("R02.a", len(roots), 7, "entry points")

    # ---------------------------------------------------------------- R02.b
    dispatcher_reset(ctx, Lifecycle(ctx), disp, "R02.b")

    # ---------------------------------------------------------------- R02.d/e
    dispatch = repo.need_method(disp, "dispatch")
    start_time = repo.need_method(disp, "start_time")
    eng = ctx.engine(relevant=_rel, max_depth=6)
    paths = [p for p in eng.paths(dispatch, disp) if p.outcome != "raise"]
    if not paths:
        raise AnalysisError("dispatch has no accepted path")
    R = dispatcher_roles(ctx)
    WANT = {
        R["mach_free"]: ("machine_id", "assign"),
        R["job_index"]: ("job_id", "augassign"),
        R["job_free"]: ("job_id", "assign"),
    }
    bad = False
    for p in paths:
        seen = {k: [] for k in WANT}
        for ev in p.events:
            if ev.kind != "write" or ev.data.get("local"):
                continue
            root, chain, fr = resolve_root(ev)
            if fr is None or fr.parent is not None or root != "self" or not chain or chain[0] not in WANT:
                continue
            seen[chain[0]].append(ev)
        for attr, (idx_attr, op) in WANT.items():
            evs = seen[attr]
            if len(evs) != 1:
                bad = True
                chk.violation(
                    "R02.d", dispatch, evs[1].node if len(evs) > 1 else None,
                    f"an accepted dispatch path updates `{attr}` {len(evs)} times (must be exactly once, "
                    "unconditionally): the bookkeeping no longer matches the schedule and later start times are wrong",
                    loc=evs[1].loc if len(evs) > 1 else "", path=p.describe(),
                )
                continue
            ev = evs[0]
            why = _check_tracking_write(ev, attr, idx_attr, op, _ctor_args(p))
            if why:
                bad = True
                chk.violation("R02.d", ev.fi, ev.node, why, loc=ev.loc)
        if bad:
            break
    if not bad:
        chk.ok("R02.d", dispatch.qualname, dispatch.loc(), f"{len(paths)} accepted paths: three tracking updates, once each, indexed by the scheduled operation")

    # R02.e: constructor argument provenance (on the flattened dispatch: private
    # planning / committing steps inlined)
    sop = repo.find_class("ScheduledOperation")
    dispatch_raw = dispatch
    dispatch = ctx.norm.flat(dispatch_raw, depth=3)
    ctor = [n for n in own_nodes(dispatch.node) if isinstance(n, ast.Call) and repo.resolve(dispatch.module.name, ast.unparse(n.func)) == sop.qualname]
    if len(ctor) != 1:
        raise AnalysisError("dispatch: ScheduledOperation(...) construction not found exactly once")
    c = ctor[0]
    sparams = repo.method(sop, "__init__").params[1:]
    amap = dict(zip(sparams, c.args))
    for k in c.keywords:
        amap[k.arg] = k.value
    op_p, mid_p = dispatch.params[1], dispatch.params[2]
    ok = True
    if not (isinstance(amap.get("operation"), ast.Name) and amap["operation"].id == op_p):
        ok = False
        chk.violation("R02.e", dispatch, c, "the ScheduledOperation is not built for the operation being dispatched", loc=dispatch.loc(c))
    def requested_machine(e):
        """the machine parameter, possibly defaulted to the operation's own
        machine when it is None (as a conditional expression)"""
        if e is None:
            return False
        x = ctx.norm.xexpr(dispatch, e)
        if isinstance(x, ast.Name) and x.id == mid_p:
            return True
        if isinstance(x, ast.Name):
            # a copy of the parameter that is defaulted the same way:
            #   m = machine_id ; if m is None: m = operation.machine_id
            vals = [ast.unparse(d[1]) for d in ctx.flow.defs(dispatch).of(x.id) if d[1] is not None]
            if vals and set(vals) <= {mid_p, f"{op_p}.machine_id"} and mid_p in vals:
                return True
        if isinstance(x, ast.IfExp) and isinstance(x.test, ast.Compare) and len(x.test.ops) == 1 and ast.unparse(x.test.left) == mid_p \
                and ast.unparse(x.test.comparators[0]) == "None":
            own = f"{op_p}.machine_id"
            b, o = ast.unparse(x.body), ast.unparse(x.orelse)
            if isinstance(x.test.ops[0], ast.Is):
                return b == own and o == mid_p
            if isinstance(x.test.ops[0], ast.IsNot):
                return b == mid_p and o == own
        return False

    if not requested_machine(amap.get("machine_id")):
        ok = False
        chk.violation("R02.e", dispatch, c, "the ScheduledOperation is not built for the requested machine", loc=dispatch.loc(c))
    st = amap.get("start_time")
    st_src = st
    if isinstance(st, ast.Name):
        ds = ctx.flow.defs(dispatch).of(st.id)
        if len(ds) == 1:
            st_src = ds[0][1]
    if (
        isinstance(st_src, ast.Call) and isinstance(st_src.func, ast.Attribute) and st_src.func.attr == "start_time"
        and ast.unparse(st_src.func.value) == "self" and len(st_src.args) + len(st_src.keywords) == 2
        and ast.unparse((st_src.args + [k.value for k in st_src.keywords if k.arg == "operation"])[0]) == op_p
        and ctx.norm.xtext(dispatch, (st_src.args[1:2] + [k.value for k in st_src.keywords if k.arg == "machine_id"])[0])
        == ctx.norm.xtext(dispatch, amap["machine_id"]) and requested_machine(amap.get("machine_id"))
    ):
        if ok:
            chk.ok("R02.e", dispatch.qualname, dispatch.loc(c), "start = self.start_time(operation, machine_id) of the same request")
    else:
        chk.violation(
            "R02.e", dispatch, st_src if isinstance(st_src, ast.AST) else c,
            f"the start time of the scheduled operation is `{ast.unparse(st_src) if st_src is not None else '?'}`, "
            "not self.start_time(operation, machine_id) of the same request",
            loc=dispatch.loc(c),
        )
    ctx.attempt(_start_time_shape, ctx, start_time)
    dispatch = dispatch_raw

    # ---------------------------------------------------------------- R02.c
    ctx.attempt(_replay_sites, ctx, dispatch)


def _ctor_args(p):
    """{'operation' | 'start_time' | 'machine_id': resolved argument} of the ScheduledOperation(...) built on this path."""
    for e in p.events:
        n = e.node
        if e.kind == "call" and isinstance(n, ast.Call) and ast.unparse(n.func).split(".")[-1] == "ScheduledOperation":
            names = ("operation", "start_time", "machine_id")
            out = {}
            for k, a in zip(names, n.args):
                out[k] = _resolve(e, a)
            for kw in n.keywords:
                if kw.arg in names:
                    out[kw.arg] = _resolve(e, kw.value)
            return out
    return {}


def _check_tracking_write(ev, attr, idx_attr, op, ctor=None):
    ctor = ctor or {}
    st = ev.node
    tgt = ev.data.get("target")
    if not isinstance(tgt, ast.Subscript):
        return f"`{attr}` is rebound instead of updated at one index"
    if ev.data.get("op") != op:
        return f"`{attr}` is written with {ev.data.get('op')}, expected {op}"
    # index must resolve to <scheduled_operation>.<idx_attr>
    idx = tgt.slice
    r = _resolve(ev, idx)
    # the very value the scheduled operation was constructed with is its machine_id
    same_as_ctor = idx_attr == "machine_id" and r is not None and ctor.get("machine_id") is not None and r == ctor["machine_id"]
    if same_as_ctor:
        pass
    elif r is None or r[1][-1:] != [idx_attr] and r[1][-2:] != ["operation", idx_attr]:
        return (
            f"`{attr}` is indexed by `{ast.unparse(idx)}`, which is not the scheduled operation's {idx_attr}"
        )
    if op == "augassign":
        if not (isinstance(st, ast.AugAssign) and isinstance(st.op, ast.Add) and isinstance(st.value, ast.Constant) and st.value.value == 1):
            return f"`{attr}` is not advanced by exactly one per dispatch ({ast.unparse(st)})"
        return None
    v = _resolve(ev, st.value)
    if v is None or v[1][-1:] != ["end_time"]:
        # an end time computed afresh (`start + operation.duration` in a bookkeeping helper): whether that start is
        # the one the scheduled operation was built with needs the two computations compared - not decided here
        x = st.value
        if isinstance(x, ast.Name):
            from .common import _single_def

            d = _single_def(ev.frame.fi, x.id)
            x = d if d is not None else x
        if isinstance(x, ast.BinOp) and isinstance(x.op, ast.Add) and any(isinstance(s_, ast.Attribute) and s_.attr == "duration" for s_ in (x.left, x.right)):
            # `<start> + <operation>.duration` with the start and the operation the scheduled operation was built
            # from IS its end_time (ScheduledOperation.end_time = start_time + operation.duration)
            dur = x.left if isinstance(x.left, ast.Attribute) and x.left.attr == "duration" else x.right
            sta = x.right if dur is x.left else x.left

            class _E:  # resolve in the frame of the definition
                frame = ev.frame
            rs, ro = _resolve(ev, sta), _resolve(ev, dur.value)
            if rs is not None and ro is not None and rs == ctor.get("start_time") and ro == ctor.get("operation"):
                if same_as_ctor or (r is not None and (r[0] == ro[0] or r[1][-2:] == ["operation", idx_attr])):
                    return None
            raise AnalysisError(
                f"{ev.loc}: `{attr}` is set to `{ast.unparse(x)}`, an end time computed afresh instead of the scheduled operation's "
                "end_time; whether the two agree depends on the start time being computed identically in both places - not decided"
            )
        return f"`{attr}` is set to `{ast.unparse(st.value)}`, not the scheduled operation's end time"
    if v[0] != r[0]:
        return f"`{attr}`: index and value come from different objects"
    return None


def _resolve(ev, expr):
    """(root object key, chain) of an expression through local aliases and
    inlined-frame bindings, or None."""
    from ..paths import chain_of

    root, chain = chain_of(expr)
    if root is None:
        return None
    r, c, fr = resolve_root(ev, root, chain)
    return ((r, fr.id if fr else None), c)


def _start_time_shape(ctx, fi):
    try:
        return _start_time_shape_of(ctx, fi)
    except AnalysisError:
        # re-expressed through helpers / a generalised sibling: judge the written-out form
        ff = ctx.norm.flat(fi, depth=3)
        if ast.dump(ff.node) == ast.dump(fi.node):
            raise
        return _start_time_shape_of(ctx, ff)


def _start_time_shape_of(ctx, fi):
    chk = ctx.chk
    op_p, mid_p = fi.params[1], fi.params[2]
    rets = [n for n in own_nodes(fi.node) if isinstance(n, ast.Return) and n.value is not None]
    # truthiness tests on ids (machine 0 / job 0 treated as "missing")
    n_falsy = len(chk.findings)
    falsy_id_tests(ctx, "R02.e", lambda f: f is fi)
    if len(rets) != 1:
        # returns guarded by a test on whether a parameter was given
        # (`if machine_id is None: return self.earliest_start_time(op)`)
        # are a separate entry; the unguarded one is the definition
        def guarded(r):
            cur = fi.module.parents.get(r)
            while cur is not None and cur is not fi.node:
                if isinstance(cur, ast.If):
                    names = {x.id for x in ast.walk(cur.test) if isinstance(x, ast.Name)}
                    if names and names <= set(fi.params[1:]):
                        return True
                cur = fi.module.parents.get(cur)
            return False
        rets = [r for r in rets if not guarded(r)]
    if len(rets) != 1:
        if len(chk.findings) > n_falsy:
            return
        raise AnalysisError("Dispatcher.start_time: single unguarded return expected")
    v = rets[0].value
    defs = ctx.flow.defs(fi)

    def expand(e):
        if isinstance(e, ast.Name):
            ds = defs.of(e.id)
            if len(ds) == 1 and ds[0][0] == "value":
                return expand(ds[0][1])
        return e

    v = expand(v)
    if isinstance(v, ast.Call) and isinstance(v.func, ast.Name) and v.func.id in ("min", "sum"):
        chk.violation("R02.e", fi, v, f"start_time combines its sources with {v.func.id}(), not max(): operations start before their machine or their job is free", loc=fi.loc(v))
        return
    if not (isinstance(v, ast.Call) and isinstance(v.func, ast.Name) and v.func.id == "max" and len(v.args) == 2 and not v.keywords):
        raise AnalysisError(f"Dispatcher.start_time: shape not recognised ({ast.unparse(v)[:60]})")
    def given(e):
        """``e`` read under the pinned contract of start_time - the machine is given: `<machine> is None` is False,
        conditional expressions on it are decided, `min(f(m) for m in [machine])` is f(machine)."""
        import copy as _copy
        from ..normalize import _FoldIfExp

        class _NotNone(ast.NodeTransformer):
            def visit_Compare(self, c):
                self.generic_visit(c)
                if (
                    len(c.ops) == 1 and isinstance(c.left, ast.Name) and c.left.id == mid_p and isinstance(c.comparators[0], ast.Constant)
                    and c.comparators[0].value is None and isinstance(c.ops[0], (ast.Is, ast.IsNot, ast.Eq, ast.NotEq))
                ):
                    return ast.copy_location(ast.Constant(value=isinstance(c.ops[0], (ast.IsNot, ast.NotEq))), c)
                return c

        class _Single(ast.NodeTransformer):
            def visit_Call(self, c):
                self.generic_visit(c)
                if (
                    isinstance(c.func, ast.Name) and c.func.id in ("min", "max") and len(c.args) == 1 and not c.keywords
                    and isinstance(c.args[0], (ast.GeneratorExp, ast.ListComp)) and len(c.args[0].generators) == 1
                ):
                    g = c.args[0].generators[0]
                    it = g.iter
                    if isinstance(it, (ast.List, ast.Tuple)) and len(it.elts) == 1 and not g.ifs and isinstance(g.target, ast.Name):
                        class _S(ast.NodeTransformer):
                            def visit_Name(self, n):
                                return _copy.deepcopy(it.elts[0]) if n.id == g.target.id and isinstance(n.ctx, ast.Load) else n

                        return _S().visit(_copy.deepcopy(c.args[0].elt))
                return c

        x = ctx.norm.xexpr(fi, e)
        x = _FoldIfExp().visit(_NotNone().visit(_copy.deepcopy(x)))
        return _Single().visit(x)

    got = {ast.unparse(given(expand(a))) for a in v.args}  # one-expression accessors expanded; the machine is given
    R = dispatcher_roles(ctx)
    want = {f"self.{R['mach_free']}[{mid_p}]", f"self.{R['job_free']}[{op_p}.job_id]"}
    alt = {f"self.machine_next_available_time[{mid_p}]", f"self.job_next_available_time[{op_p}.job_id]"}
    if got == want or got == alt:
        chk.ok("R02.e", fi.qualname, fi.loc(v), "max(machine next-available, job next-available)")
    else:
        chk.violation(
            "R02.e", fi, v,
            f"start_time is max over {sorted(got)}; required are the requested machine's and the operation's job's "
            f"next-available entries {sorted(want)}",
            loc=fi.loc(v),
        )


def _replay_sites(ctx, dispatch):
    chk, repo = ctx.chk, ctx.repo
    sop = repo.find_class("ScheduledOperation")
    n = 0
    for fi in repo.all_functions():
        if isinstance(fi.node, ast.Lambda):
            continue
        for ev, t, rc in ctx.effects.calls(fi, fi.cls):
            if t is not dispatch or not isinstance(ev.node, ast.Call):
                continue
            call = ev.node
            args = list(call.args) + [k.value for k in call.keywords]
            if not args:
                continue
            a0 = args[0]
            # a replay site dispatches <record>.operation where record is a ScheduledOperation
            if not (isinstance(a0, ast.Attribute) and a0.attr == "operation"):
                continue
            if not ctx.types.is_a(fi.module, a0.value, sop.qualname):
                continue
            n += 1
            rec = ast.unparse(a0.value)
            a1 = args[1] if len(args) > 1 else None
            if a1 is None or ast.unparse(a1) != f"{rec}.machine_id":
                chk.violation(
                    "R02.c", fi, call,
                    f"the recorded operation is re-dispatched with machine `{ast.unparse(a1) if a1 is not None else 'default'}` "
                    f"instead of `{rec}.machine_id`: flexible operations are replayed on another machine",
                    loc=fi.loc(call),
                )
                continue
            # history order: the record is the loop variable of a direct iteration
            loop = None
            cur = fi.module.parents.get(call)
            while cur is not None and cur is not fi.node:
                if isinstance(cur, ast.For):
                    loop = cur
                    break
                cur = fi.module.parents.get(cur)
            if loop is None:
                raise AnalysisError(f"{fi.loc(call)}: replay site outside a loop")
            it = loop.iter
            if isinstance(it, ast.Call) and isinstance(it.func, ast.Name) and it.func.id == "enumerate":
                it = it.args[0]
            if isinstance(it, (ast.Name, ast.Attribute)):
                chk.ok("R02.c", fi.qualname, fi.loc(call), f"replays ({rec}.operation, {rec}.machine_id) over `{ast.unparse(it)}` in order")
            else:
                chk.violation(
                    "R02.c", fi, loop.iter,
                    f"the history is replayed over `{ast.unparse(loop.iter)}`, not in recorded order",
                    loc=fi.loc(loop),
                )
    chk.floor("R02.c", n, 1, "replay call sites")
    # the record handed out to callers is a value: reset starts a new list and
    # leaves the one already handed out untouched, so a history taken before
    # `dispatcher.reset()` can be replayed on that very dispatcher
    hist = repo.find_class("HistoryObserver")
    hr = repo.method(hist, "reset")
    if hr is None:
        raise AnalysisError("HistoryObserver.reset vanished")
    lc = Lifecycle(ctx)
    ws = [w for w in lc.attr_writes(hr, hist) if w.attr == "history"]
    weak = [w for w in ws if w.kind != "rebind"]
    if weak:
        chk.violation(
            "R02.c", hr, weak[0].event.node,
            f"HistoryObserver.reset modifies the recorded list in place ({weak[0].text}): a history obtained from the "
            "observer is wiped (or keeps growing) when the dispatcher is reset, so it cannot be replayed on the reset "
            "dispatcher",
            loc=weak[0].loc,
        )
    elif ws:
        chk.ok("R02.c", hr.qualname, hr.loc(), "reset rebinds history to a new list; recorded lists already handed out stay intact")
    else:
        chk.violation("R02.c", hr, None, "HistoryObserver.reset does not start a new history")
