"""C18 - the environments honour the Gymnasium contract (structural clauses).

R18.a  sibling constructor agreement: every configuration keyword that
       ``MultiJobShopGraphEnv.__init__`` forwards to ``SingleJobShopGraphEnv``
       is forwarded again by ``reset`` - from state that stores the same
       constructor argument.
R18.b  declared ranges cover the legal values (linear symbolic intervals over
       the ``MultiDiscrete(nvec, start=...)`` arguments): job component
       ⊇ [0, num_jobs-1], machine component ⊇ [-1, num_machines-1], edge
       index entries ⊇ [-1, len(nodes)-1].
R18.c  ``truncated`` is the constant False on every return path of ``step``;
       ``done`` is ``schedule.is_complete()`` evaluated after the dispatch.
R18.d  the observation dictionary and the observation space are built over
       the same keys from the same sources.
R18.e  padding: fill value True for the removed-nodes mask and -1 otherwise,
       original data copied to the leading corner (padding only at the end).
R18.h  no closure created in a loop of these modules keeps the loop variable by
       reference (late binding) - every kept closure would see the last value.
"""

from __future__ import annotations

import ast

from ..repo import AnalysisError, dotted, own_nodes

MANIFEST = {
    "text": (
        "Decides the configuration and declaration clauses of C18 for every "
        "instance size and configuration: the multi-instance environment's "
        "reset forwards every constructor keyword it forwarded at construction, "
        "from the attribute that stores that argument (so each episode is built "
        "with the constructor's configuration); the declared action and "
        "edge-index ranges, evaluated symbolically in num_jobs / num_machines / "
        "number of nodes, contain every legal decision; truncated is constantly "
        "False and done is schedule completeness read after the dispatch; "
        "observation and space share keys and sources; padding uses the declared "
        "fill values at the end. Not decided: membership of each observation "
        "array in its space (shapes and dtypes are runtime values)."
        " Also decided: no function of these modules accumulates into a mutable default argument or a class-level mutable shared by all instances."
        " Also decided: no closure created in a loop keeps the loop variable by reference (late binding)."
    ),
    "note": "Linear arithmetic over the AST of the space declarations; gymnasium's MultiDiscrete(nvec, start) semantics [start, start+nvec-1] is trusted.",
    "technique": "sibling call-site agreement + symbolic interval evaluation of space declarations + return-path constants",
    "ref": "DESIGN.md §3 C18",
}
UNDECIDED = [
    "every observation array belongs to its declared space (shapes, dtypes, bounds are runtime values)",
    "removed-node mask and edge list equal the current graph at every step (values)",
    "generated instances lie inside the generator's ranges (see C19)",
]
ASSUMPTIONS = ["gymnasium.spaces.MultiDiscrete(nvec, start=s) contains exactly the integer vectors with s <= x < s + nvec"]


# ----------------------------------------------------------------- linear forms
def linear(node, env=None, depth=0):
    """AST -> {symbol: coeff, 1: const} or None."""
    env = env or {}
    if depth > 8:
        return None
    if isinstance(node, ast.Constant) and isinstance(node.value, (int, float)) and not isinstance(node.value, bool):
        return {1: node.value}
    if isinstance(node, ast.UnaryOp) and isinstance(node.op, ast.USub):
        v = linear(node.operand, env, depth + 1)
        return None if v is None else {k: -c for k, c in v.items()}
    if isinstance(node, ast.BinOp) and isinstance(node.op, (ast.Add, ast.Sub)):
        a, b = linear(node.left, env, depth + 1), linear(node.right, env, depth + 1)
        if a is None or b is None:
            return None
        out = dict(a)
        sign = 1 if isinstance(node.op, ast.Add) else -1
        for k, c in b.items():
            out[k] = out.get(k, 0) + sign * c
        return out
    if isinstance(node, ast.BinOp) and isinstance(node.op, ast.Mult):
        a, b = linear(node.left, env, depth + 1), linear(node.right, env, depth + 1)
        if a is None or b is None:
            return None
        if set(a) <= {1}:
            return {k: a.get(1, 0) * c for k, c in b.items()}
        if set(b) <= {1}:
            return {k: b.get(1, 0) * c for k, c in a.items()}
        return None
    if isinstance(node, ast.Name) and node.id in env:
        return linear(env[node.id], env, depth + 1)
    if isinstance(node, ast.Attribute):
        return {node.attr: 1}
    if isinstance(node, ast.Call) and isinstance(node.func, ast.Name) and node.func.id == "len" and node.args:
        return {"len(" + ast.unparse(node.args[0]).split(".")[-1] + ")": 1}
    if isinstance(node, ast.Name):
        return {node.id: 1}
    return None


def alternatives(node, env=None, depth=0):
    """All linear forms a (possibly conditional) expression may take."""
    env = env or {}
    if depth > 6:
        return None
    if isinstance(node, ast.Name) and node.id in env:
        return alternatives(env[node.id], env, depth + 1)
    if isinstance(node, ast.IfExp):
        a, b = alternatives(node.body, env, depth + 1), alternatives(node.orelse, env, depth + 1)
        if a is None or b is None:
            return None
        return a + b
    if isinstance(node, ast.BinOp) and isinstance(node.op, (ast.Add, ast.Sub)):
        a, b = alternatives(node.left, env, depth + 1), alternatives(node.right, env, depth + 1)
        if a is None or b is None:
            return None
        out = []
        for x in a:
            for y in b:
                r = dict(x)
                sign = 1 if isinstance(node.op, ast.Add) else -1
                for k, c in y.items():
                    r[k] = r.get(k, 0) + sign * c
                out.append(r)
        return out
    f = linear(node, env, depth)
    return None if f is None else [f]


def nonneg(form) -> bool:
    """form >= 0 for all symbol values >= 1."""
    # worst case: every symbol at its minimum (1) when coefficient >= 0;
    # a negative coefficient makes the form unbounded below
    total = form.get(1, 0)
    for k, c in form.items():
        if k == 1:
            continue
        if c < 0:
            return False
        total += c
    return total >= 0


def sub(a, b):
    out = dict(a)
    for k, c in b.items():
        out[k] = out.get(k, 0) - c
    return out


def fmt(form):
    parts = []
    for k, c in form.items():
        if k == 1 or c == 0:
            continue
        parts.append(f"{'' if c == 1 else c}{'*' if c != 1 else ''}{k}")
    c = form.get(1, 0)
    if c or not parts:
        parts.append(str(c))
    return " + ".join(parts).replace("+ -", "- ")


# --------------------------------------------------------------------- R18.a
def _ctor_calls(ctx, fi, target_cls):
    out = []
    for n in own_nodes(fi.node):
        if isinstance(n, ast.Call):
            q = ctx.repo.resolve(fi.module.name, dotted(n.func) or "")
            if q == target_cls.qualname:
                out.append(n)
    return out


def sibling_constructor_agreement(ctx, rule="R18.a"):
    chk, repo = ctx.chk, ctx.repo
    multi = repo.find_class("MultiJobShopGraphEnv")
    single = repo.find_class("SingleJobShopGraphEnv")
    init_raw, rst_raw = multi.methods.get("__init__"), multi.methods.get("reset")
    if init_raw is None or rst_raw is None:
        raise AnalysisError("MultiJobShopGraphEnv.__init__/reset vanished")
    init, rst = ctx.norm.flat(init_raw), ctx.norm.flat(rst_raw)
    c_init, c_rst = _ctor_calls(ctx, init, single), _ctor_calls(ctx, rst, single)
    if len(c_init) != 1:
        raise AnalysisError("MultiJobShopGraphEnv.__init__: expected exactly one SingleJobShopGraphEnv(...) call")
    if len(c_rst) != 1:
        chk.violation(rule, rst_raw, None, "MultiJobShopGraphEnv.reset does not rebuild the inner environment for the new instance")
        return
    ci, cr = c_init[0], c_rst[0]
    sparams = repo.method(single, "__init__").params[1:]

    def kwmap(call, F=None):
        m = {}
        for p, a in zip(sparams, call.args):
            m[p] = a
        for k in call.keywords:
            if k.arg:
                m[k.arg] = k.value
            elif F is not None:
                # `**options` with options a dict display bound once in the function: its entries are keywords
                d = ctx.norm.xexpr(F, k.value)
                if isinstance(d, ast.Dict) and d.keys and all(isinstance(x, ast.Constant) and isinstance(x.value, str) for x in d.keys):
                    for x, v in zip(d.keys, d.values):
                        m.setdefault(x.value, v)
        return m

    # `**{k: v for k, v in options.items() if v is not None}`: a None that the caller passed on purpose is dropped, and
    # for ready_operations_filter None means "no filter" while the inner default is filter_dominated_operations
    for F_, call_ in ((init, ci), (rst, cr)):
        for k in call_.keywords:
            if k.arg is not None or not isinstance(k.value, ast.Name):
                continue
            defs_ = [d_[1] for d_ in ctx.flow.defs(F_).of(k.value.id) if d_[0] == "value" and d_[1] is not None]
            comp = next((d_ for d_ in defs_ if isinstance(d_, ast.DictComp)), None)
            disp_ = next((d_ for d_ in defs_ if isinstance(d_, ast.Dict)), None)
            if comp is None or disp_ is None or len(comp.generators) != 1:
                continue
            drops_none = any("is not None" in ast.unparse(c_) or "is None" in ast.unparse(c_) for c_ in comp.generators[0].ifs)
            keys_ = [x.value for x in disp_.keys if isinstance(x, ast.Constant)]
            if drops_none and "ready_operations_filter" in keys_:
                chk.violation(
                    rule, F_, comp,
                    "the options handed to the inner environment are filtered with `is not None`: `ready_operations_filter=None` (no "
                    "filtering) is dropped and the inner environment falls back to its default filter_dominated_operations - the "
                    "environment does not run with the configuration it was constructed with",
                    loc=F_.loc(comp),
                )
                return
    ki, kr = kwmap(ci, init), kwmap(cr, rst)
    iparams = set(init_raw.params)
    # attributes of self that store constructor parameters
    stored = {}
    for n in own_nodes(init.node):
        if isinstance(n, ast.Assign):
            for t in n.targets:
                if isinstance(t, ast.Attribute) and ast.unparse(t.value) == "self" and isinstance(n.value, ast.Name) and n.value.id in iparams:
                    stored[t.attr] = n.value.id

    def source(F, v):
        """('param', P) constructor argument P; ('live', text) state of the
        environment; ('other', text)."""
        x = ctx.norm.xexpr(F, v)
        if isinstance(x, ast.Name) and x.id in iparams and F is init:
            return ("param", x.id)
        if isinstance(x, ast.Attribute) and ast.unparse(x.value) == "self":
            if x.attr in stored:
                return ("param", stored[x.attr])
            pt = repo.method(multi, x.attr)
            if pt is not None and pt.is_property:
                return ("live", x.attr)
        if isinstance(x, ast.Attribute) and ast.unparse(x).startswith("self."):
            return ("live", ast.unparse(x))
        return ("other", ast.unparse(x))

    # an argument the two constructors have in common configures the inner
    # environment: the outer constructor hands it on as given
    star = any(k.arg is None and not isinstance(ctx.norm.xexpr(init, k.value), ast.Dict) for k in ci.keywords)
    for P in [q for q in init_raw.params[1:] if q in sparams]:
        got = ki.get(P)
        if got is None and star:
            continue  # may travel in the `**options` of the call: not decided here (the floor below still counts what is visible)
        if got is None or source(init, got) != ("param", P):
            shown = "nothing (the default applies)" if got is None else f"`{ast.unparse(got)[:60]}`"
            chk.violation(
                rule, init_raw, got if got is not None else ci,
                f"MultiJobShopGraphEnv(..., {P}=...) passes {shown} as `{P}` to the inner SingleJobShopGraphEnv instead of its own "
                f"argument: the environment does not run with the {P} it was constructed with",
                loc=init.loc(got if got is not None else ci),
            )
        else:
            chk.ok(rule, init_raw.qualname, init.loc(got), f"{P} handed on to the inner environment")
    n_kw = 0
    for k, v in ki.items():
        si = source(init, v)
        if si[0] != "param":
            continue  # derived per-episode value (the graph)
        n_kw += 1
        P = si[1]
        if k not in kr:
            chk.violation(
                rule, rst_raw, cr,
                f"the constructor forwards `{k}={P}` to SingleJobShopGraphEnv but reset does not: from the "
                f"second episode on the environment silently runs with the default {k}",
                loc=rst.loc(cr),
            )
            continue
        sr = source(rst, kr[k])
        shown = ast.unparse(kr[k])
        if sr == ("param", P):
            chk.ok(rule, rst_raw.qualname, rst.loc(kr[k]), f"{k} forwarded from the attribute storing `{P}`")
        elif sr[0] == "param":
            chk.violation(
                rule, rst_raw, kr[k],
                f"reset passes `{k}={shown}`, which stores the constructor argument `{sr[1]}`, not `{P}`",
                loc=rst.loc(kr[k]),
            )
        elif sr[0] == "live" and k in sr[1]:
            chk.ok(rule, rst_raw.qualname, rst.loc(kr[k]), f"{k} forwarded from live state ({sr[1]})")
        elif sr[0] == "live":
            chk.violation(rule, rst_raw, kr[k], f"reset passes `{k}={shown}`: a different setting is forwarded", loc=rst.loc(kr[k]))
        else:
            chk.violation(
                rule, rst_raw, kr[k],
                f"reset passes `{k}={sr[1][:60]}`, which is not the stored constructor argument `{P}`: from the second "
                f"episode on the environment runs with a different {k}",
                loc=rst.loc(kr[k]),
            )
    if n_kw < 6:
        raise AnalysisError(f"only {n_kw} configuration keywords recognised in MultiJobShopGraphEnv.__init__ (floor 6)")


# --------------------------------------------------------------------- R18.b
def _space_calls(fi, name):
    return [
        n for n in own_nodes(fi.node)
        if isinstance(n, ast.Call) and (dotted(n.func) or "").endswith("spaces." + name)
    ]


def _fill_value(node, env):
    """np.full(shape, fill_value=X, ...) -> X ; list -> elements."""
    if isinstance(node, ast.Name) and node.id in env:
        node = env[node.id]
    if isinstance(node, ast.Call) and (dotted(node.func) or "").endswith("full"):
        for k in node.keywords:
            if k.arg == "fill_value":
                return [k.value]
        if len(node.args) >= 2:
            return [node.args[1]]
    if isinstance(node, (ast.List, ast.Tuple)):
        return list(node.elts)
    return None


def action_and_edge_ranges(ctx):
    chk, repo = ctx.chk, ctx.repo
    single = repo.find_class("SingleJobShopGraphEnv")
    def judge_action_space(init, required=True):
        """the declared action space of one environment class contains every legal decision"""
        env = {}
        # module-level numeric constants (named sentinels such as ANY_MACHINE = -1)
        for name, v in getattr(init.module, "assigns", {}).items():
            if isinstance(v, ast.Constant) and isinstance(v.value, (int, float)) and not isinstance(v.value, bool):
                env[name] = v
            elif isinstance(v, ast.UnaryOp) and isinstance(v.op, ast.USub) and isinstance(v.operand, ast.Constant):
                env[name] = v
        for n in own_nodes(init.node):
            if isinstance(n, ast.Assign) and isinstance(n.targets[0], ast.Name):
                env[n.targets[0].id] = n.value
            elif isinstance(n, ast.AnnAssign) and isinstance(n.target, ast.Name) and n.value is not None:
                env[n.target.id] = n.value
            elif (
                isinstance(n, ast.Assign) and isinstance(n.targets[0], ast.Tuple) and isinstance(n.value, ast.Tuple)
                and len(n.targets[0].elts) == len(n.value.elts) and all(isinstance(t, ast.Name) for t in n.targets[0].elts)
            ):
                for t, v in zip(n.targets[0].elts, n.value.elts):
                    env[t.id] = v
        md = [
            c for c in _space_calls(init, "MultiDiscrete")
        ]
        act = None
        for n in own_nodes(init.node):
            if isinstance(n, ast.Assign) and any(isinstance(t, ast.Attribute) and t.attr == "action_space" for t in n.targets):
                act = n.value
            elif isinstance(n, ast.AnnAssign) and isinstance(n.target, ast.Attribute) and n.target.attr == "action_space" and n.value is not None:
                act = n.value
        if not (isinstance(act, ast.Call) and (dotted(act.func) or "").endswith("MultiDiscrete")):
            if not required:
                return False
            raise AnalysisError("SingleJobShopGraphEnv: action_space declaration not recognised")
        nvec = _fill_value(act.args[0] if act.args else None, env)
        start = None
        for k in act.keywords:
            if k.arg == "start":
                start = _fill_value(k.value, env)
            if k.arg == "nvec":
                nvec = _fill_value(k.value, env)
        if nvec is None or len(nvec) != 2:
            raise AnalysisError("action_space: nvec is not a two-component literal")
        if start is None:
            start = [ast.Constant(0), ast.Constant(0)]
        need = [
            ("job", {1: 0}, {"num_jobs": 1, 1: -1}, "job ids 0..num_jobs-1"),
            ("machine", {1: -1}, {"num_machines": 1, 1: -1}, "-1 (single-machine sentinel) and machine ids 0..num_machines-1"),
        ]
        for i, (what, lo_need, hi_need, txt) in enumerate(need):
            nvs, sts = alternatives(nvec[i], env), alternatives(start[i], env)
            if nvs is None or sts is None:
                raise AnalysisError(f"action_space component {i}: not a (conditional) linear expression")
            bad = None
            shown = None
            for nv in nvs:
                for st in sts:
                    if not set(st) <= {1}:
                        raise AnalysisError("action_space start is symbolic")
                    hi = sub({**nv, 1: nv.get(1, 0) + st.get(1, 0)}, {1: 1})
                    shown = (st, hi)
                    ok_lo = nonneg(sub(lo_need, st))
                    ok_hi = nonneg(sub(hi, hi_need))
                    if not (ok_lo and ok_hi) and bad is None:
                        bad = (st, hi, ok_lo)
            if bad is None:
                st, hi = shown
                chk.ok("R18.b", init.qualname, init.loc(act), f"{what} component [{fmt(st)}, {fmt(hi)}] ⊇ {txt}" + (" (all conditional alternatives)" if len(nvs) * len(sts) > 1 else ""))
            else:
                st, hi, ok_lo = bad
                chk.violation(
                    "R18.b", init, act,
                    f"action space {what} component can be [{fmt(st)}, {fmt(hi)}] but legal decisions need {txt}: "
                    + ("the lowest legal value is excluded" if not ok_lo else f"the legal {what} id {fmt(hi_need)} is not in the declared space"),
                    loc=init.loc(act),
                )

        return True

    init = ctx.norm.flat(single.methods["__init__"], depth=3)
    judge_action_space(init)
    # the multi environment either copies the inner environment's space (then
    # the judgement above carries over) or declares its own
    multi_ = repo.find_class("MultiJobShopGraphEnv")
    if multi_.methods.get("__init__") is not None:
        minit = ctx.norm.flat(multi_.methods["__init__"], depth=3)
        own = [
            n for n in own_nodes(minit.node)
            if isinstance(n, (ast.Assign, ast.AnnAssign)) and n.value is not None
            and any(isinstance(t, ast.Attribute) and t.attr == "action_space" for t in (n.targets if isinstance(n, ast.Assign) else [n.target]))
        ]
        if own and isinstance(own[-1].value, ast.Call) and (dotted(own[-1].value.func) or "").endswith("MultiDiscrete"):
            judge_action_space(minit)
    # edge index space
    gos = _obs_space_builder(ctx, single)
    if not _space_calls(gos, "MultiDiscrete"):
        # the declaration may sit in a private helper (possibly of a helper
        # module) the builder delegates to
        gos = ctx.norm.flat(gos, depth=3)
    env2 = {}
    for n in own_nodes(gos.node):
        if isinstance(n, ast.Assign) and isinstance(n.targets[0], ast.Name):
            env2[n.targets[0].id] = n.value
    mds = _space_calls(gos, "MultiDiscrete")
    if len(mds) != 1:
        raise AnalysisError("edge-index MultiDiscrete declaration not found")
    e = mds[0]
    nv = _fill_value(e.args[0] if e.args else None, env2)
    st = None
    for k in e.keywords:
        if k.arg == "start":
            st = _fill_value(k.value, env2)
    if not nv or not st:
        raise AnalysisError("edge-index space: fill values not recognised")
    def res(e):
        """local aliases and module-level numeric constants expanded"""
        import copy as _copy

        x = ctx.norm.xexpr(gos, e)

        class _K(ast.NodeTransformer):
            def visit_Name(self, n):
                v = _module_const(ctx, gos, n)
                if v is not n and (isinstance(v, ast.Constant) or (isinstance(v, ast.UnaryOp) and isinstance(v.operand, ast.Constant))):
                    return _copy.deepcopy(v)
                return n

        return _K().visit(x)

    nvl, stl = linear(res(nv[0]), env2), linear(res(st[0]), env2)
    if nvl is None or stl is None or not set(stl) <= {1}:
        raise AnalysisError("edge-index space: not linear")
    hi = sub({**nvl, 1: nvl.get(1, 0) + stl.get(1, 0)}, {1: 1})
    sym = [k for k in nvl if k != 1]
    need_hi = {sym[0]: 1, 1: -1} if sym else {1: 0}
    if nonneg(sub({1: -1}, stl)) and nonneg(sub(hi, need_hi)):
        chk.ok("R18.b", gos.qualname, gos.loc(e), f"edge index entries [{fmt(stl)}, {fmt(hi)}] ⊇ padding -1 and node ids")
    else:
        chk.violation(
            "R18.b", gos, e,
            f"edge-index entries are declared in [{fmt(stl)}, {fmt(hi)}], which does not contain the padding "
            f"value -1 and every node id up to {fmt(need_hi)}",
            loc=gos.loc(e),
        )


def feature_boxes(ctx):
    """R18.b (features): the Box declared for a feature matrix is unbounded.
    Feature observers are configurable and several built-in ones report
    signed quantities (earliest start times are relative to the current
    time, remaining durations of ongoing operations go below zero), so any
    finite bound excludes observations that do occur."""
    chk, repo = ctx.chk, ctx.repo
    single = repo.find_class("SingleJobShopGraphEnv")
    gos = _obs_space_builder(ctx, single)
    scope = [gos] + [m for m in single.methods.values() if m is not gos]
    n = 0
    for f in scope:
        for c in _space_calls(f, "Box"):
            n += 1
            kw = {k.arg: k.value for k in c.keywords}
            lo = kw.get("low", c.args[0] if c.args else None)
            hi = kw.get("high", c.args[1] if len(c.args) > 1 else None)

            def inf(e, sign):
                if e is None:
                    return False
                t = ast.unparse(_module_const(ctx, f, e)).replace(" ", "")
                want = ("-np.inf", "-numpy.inf", "-math.inf", "-inf", "float('-inf')", "-float('inf')") if sign < 0 else (
                    "np.inf", "numpy.inf", "math.inf", "inf", "float('inf')")
                return t in want

            if inf(lo, -1) and inf(hi, 1):
                chk.ok("R18.b", f.qualname, f.loc(c), "feature Box is (-inf, inf)")
            else:
                chk.violation(
                    "R18.b", f, c,
                    f"a feature matrix is declared as Box(low={ast.unparse(lo) if lo is not None else '?'}, "
                    f"high={ast.unparse(hi) if hi is not None else '?'}): feature values are not bounded (start times relative "
                    "to the current time and remaining durations become negative), so observations fall outside the space",
                    loc=f.loc(c),
                )
    chk.analysed["feature_box_declarations"] = n


# --------------------------------------------------------------------- R18.c
def step_flags(ctx):
    chk, repo = ctx.chk, ctx.repo
    single = repo.find_class("SingleJobShopGraphEnv")
    step = single.methods.get("step")
    if step is not None and not any(
        isinstance(r, ast.Return) and isinstance(r.value, ast.Tuple) and len(r.value.elts) == 5 for r in own_nodes(step.node)
    ):
        # a template-method split: the private steps written out
        step = ctx.norm.flat(step, depth=3)
    disp = repo.find_class("Dispatcher")
    dispatch = repo.need_method(disp, "dispatch")
    eng = ctx.engine(relevant=lambda e: e.kind == "call" and dispatch in (e.data.get("targets") or []), max_depth=1)
    defs = ctx.flow.defs(step)
    n = 0
    for p in eng.paths(step, single):
        if p.outcome != "return":
            continue
        n += 1
        ret = p.events[-1].data.get("value")
        if not (isinstance(ret, ast.Tuple) and len(ret.elts) == 5):
            raise AnalysisError("step does not return a 5-tuple literal")
        done, trunc = ret.elts[2], ret.elts[3]

        def val(e):
            if isinstance(e, ast.Name):
                ds = defs.of(e.id)
                if len(ds) == 1 and ds[0][0] == "value":
                    return ds[0][1], ds[0][2]
            return e, None

        tv, _ = val(trunc)
        if isinstance(tv, ast.Constant) and tv.value is False:
            chk.ok("R18.c", step.qualname, step.loc(ret), "truncated is the constant False")
        else:
            chk.violation("R18.c", step, tv, f"`truncated` is `{ast.unparse(tv)}`, not the constant False: truncation can be signalled", loc=step.loc(tv))
        dv, dstmt = val(done)
        txt = ast.unparse(dv)
        if txt.endswith("schedule.is_complete()"):
            i_disp = next((i for i, e in enumerate(p.events) if e.kind == "call" and dispatch in (e.data.get("targets") or [])), None)
            i_done = next((i for i, e in enumerate(p.events) if e.kind == "call" and e.node is dv), None)
            if i_disp is None:
                chk.violation("R18.c", step, None, "a returning step path never dispatches")
            elif i_done is not None and i_done < i_disp:
                chk.violation("R18.c", step, dv, "`done` is read before the action is dispatched: the last step reports done=False", loc=step.loc(dv))
            else:
                chk.ok("R18.c", step.qualname, step.loc(dv), "done = schedule.is_complete() after the dispatch")
        elif isinstance(dv, ast.UnaryOp) and "is_complete" in txt:
            chk.violation("R18.c", step, dv, f"`done` is `{txt}`: inverted", loc=step.loc(dv))
        else:
            from ..baseline_api import BASELINE_ATTRS

            known_ = set(BASELINE_ATTRS.get("SingleJobShopGraphEnv", ()))
            new_state = sorted(
                x.attr for x in ast.walk(dv)
                if isinstance(x, ast.Attribute) and isinstance(x.value, ast.Name) and x.value.id == "self" and x.attr.startswith("_") and x.attr not in known_
            )
            if new_state:
                # a counter the environment keeps beside the schedule: right only if it is kept in step with it
                raise AnalysisError(
                    f"{step.loc(dv)}: `done` is `{txt}`, computed from bookkeeping the pinned tree does not have (self.{new_state[0]}); whether it "
                    "always equals the schedule's completeness is not decided by this analysis"
                )
            chk.violation("R18.c", step, dv, f"`done` is `{txt}`, not the schedule's completeness", loc=step.loc(dv))
    if n == 0:
        raise AnalysisError("step has no returning path")
    multi = repo.find_class("MultiJobShopGraphEnv")
    ms = multi.methods.get("step")
    rets = [x for x in own_nodes(ms.node) if isinstance(x, ast.Return)]
    call = [x for x in own_nodes(ms.node) if isinstance(x, ast.Assign) and isinstance(x.value, ast.Call) and ast.unparse(x.value.func).endswith("single_job_shop_graph_env.step")]
    if len(rets) == 1 and call and isinstance(call[0].targets[0], ast.Tuple) and isinstance(rets[0].value, ast.Tuple):
        got = [ast.unparse(e) for e in call[0].targets[0].elts]
        out = [ast.unparse(e) for e in rets[0].value.elts]
        if got[1:] == out[1:]:
            chk.ok("R18.c", ms.qualname, ms.loc(rets[0]), "reward/done/truncated/info passed through unchanged")
        else:
            chk.violation("R18.c", ms, rets[0], f"the multi environment returns {out[1:]} instead of the inner step's {got[1:]}", loc=ms.loc(rets[0]))
    else:
        raise AnalysisError("MultiJobShopGraphEnv.step shape not recognised")


# --------------------------------------------------------------------- roles
def _obs_space_builder(ctx, single):
    """The function that builds the observation space: the method called in
    `self.observation_space = self.<m>()` of the constructor (or the
    constructor itself when the space is built inline)."""
    init = single.methods.get("__init__")
    if init is None:
        raise AnalysisError("SingleJobShopGraphEnv.__init__ vanished")
    # the constructor may be split into private set-up steps: look at all of
    # the class's methods, the constructor first
    holders = [init] + [m for m in single.methods.values() if m is not init]
    for h, n in ((h, x) for h in holders for x in own_nodes(h.node)):
        tgs = n.targets if isinstance(n, ast.Assign) else [n.target] if isinstance(n, ast.AnnAssign) and n.value is not None else []
        if any(isinstance(t, ast.Attribute) and t.attr == "observation_space" for t in tgs):
            v = n.value
            if isinstance(v, ast.Call) and isinstance(v.func, ast.Attribute) and isinstance(v.func.value, ast.Name) and v.func.value.id == "self":
                m = ctx.repo.method(single, v.func.attr)
                if m is not None:
                    return m
            if isinstance(v, ast.Call) and isinstance(v.func, ast.Name):
                # a function of the package (spaces built by a helper shared with the multi environment)
                ts, _ = ctx.res.callees(h, v, single)
                if len(ts) == 1 and ts[0].cls is None and not isinstance(ts[0].node, ast.Lambda):
                    return ts[0]
            return h
    raise AnalysisError("SingleJobShopGraphEnv: no assignment of observation_space found")


def _padder(ctx, multi, fallback=False):
    """The method of the multi environment that pads observations: the one
    that calls add_padding.  ``fallback``: otherwise the method that rewrites
    the entries of an observation dict in a loop over its items."""
    def pads(fn):
        return any(isinstance(n, ast.Call) and (dotted(n.func) or "").split(".")[-1] == "add_padding" for n in own_nodes(fn.node))

    for m in multi.methods.values():
        if pads(m):
            return m
    # the padding loop may be a function of the package the methods delegate to
    seen, work = set(), [(m, 0) for m in multi.methods.values()]
    while work:
        fn, d = work.pop(0)
        if fn.qualname in seen or d > 3:
            continue
        seen.add(fn.qualname)
        if fn.cls is not multi and fn.name != "add_padding" and not isinstance(fn.node, ast.Lambda) and pads(fn) and (fn.cls is None or fn.cls.qualname in multi.mro):
            return fn
        for n in own_nodes(fn.node):
            if isinstance(n, ast.Call):
                try:
                    ts, _ = ctx.res.callees(fn, n, fn.cls if fn.cls is not None else None)
                except Exception:
                    continue
                for t in ts:
                    if t.module.name.startswith(multi.module.name.rsplit(".", 1)[0]) and (t.cls is None or t.cls is multi):
                        work.append((t, d + 1))
    if fallback:
        for m in multi.methods.values():
            for lp in own_nodes(m.node):
                if isinstance(lp, ast.For) and isinstance(lp.iter, ast.Call) and isinstance(lp.iter.func, ast.Attribute) and lp.iter.func.attr == "items":
                    d = ast.unparse(lp.iter.func.value)
                    if any(isinstance(st, ast.Assign) and isinstance(st.targets[0], ast.Subscript) and ast.unparse(st.targets[0].value) == d for st in ast.walk(lp)):
                        return m
    raise AnalysisError("MultiJobShopGraphEnv: no method calls add_padding")


# --------------------------------------------------------------------- R18.d
def key_agreement(ctx):
    chk, repo = ctx.chk, ctx.repo
    single = repo.find_class("SingleJobShopGraphEnv")
    gos, go = _obs_space_builder(ctx, single), single.methods.get("get_observation")
    if go is None:
        raise AnalysisError("get_observation vanished")
    if gos.cls is None and single.methods.get("__init__") is not None:
        # built by a function of the package: judged where it is called (its
        # parameters replaced by what the constructor passes)
        gos = single.methods["__init__"]

    def keys(fi_raw):
        fi = ctx.norm.flat(fi_raw)
        lit, feat = set(), set()
        for n in own_nodes(fi.node):
            if isinstance(n, ast.Dict):
                for k in n.keys:
                    if isinstance(k, ast.Name):
                        k = _module_const(ctx, fi, k)  # a module-level key constant
                    if isinstance(k, (ast.Attribute, ast.Constant)):
                        lit.add(ast.unparse(k))
            its = []
            if isinstance(n, ast.For):
                its = [(n.iter, n.target, n)]
            elif isinstance(n, (ast.ListComp, ast.GeneratorExp, ast.DictComp, ast.SetComp)):
                its = [(g.iter, g.target, n) for g in n.generators]
            for it, tgt, scope in its:
                src = ctx.norm.xtext(fi, it).replace(" ", "")
                # a shared private generator that yields (<feature type>.value, matrix)
                itx = ctx.norm.xexpr(fi, it)
                if isinstance(itx, ast.Call) and isinstance(itx.func, ast.Attribute) and isinstance(itx.func.value, ast.Name) and itx.func.value.id == "self":
                    h = repo.method(single, itx.func.attr)
                    if h is not None:
                        for lp in own_nodes(h.node):
                            if isinstance(lp, ast.For) and ast.unparse(lp.iter).replace(" ", "").endswith("composite_observer.features.items()"):
                                ft = lp.target.elts[0].id if isinstance(lp.target, ast.Tuple) and isinstance(lp.target.elts[0], ast.Name) else None
                                ys = [y for y in ast.walk(lp) if isinstance(y, ast.Yield) and isinstance(y.value, ast.Tuple) and y.value.elts]
                                if ft and ys and all(ast.unparse(y.value.elts[0]) == f"{ft}.value" for y in ys):
                                    feat.add("composite_observer.features:<feature_type>.value")
                if src.endswith("composite_observer.features.items()") or src.endswith("composite_observer.features"):
                    first = tgt.elts[0] if isinstance(tgt, ast.Tuple) else tgt
                    if isinstance(first, ast.Name) and any(
                        isinstance(x, ast.Attribute) and x.attr == "value" and isinstance(x.value, ast.Name) and x.value.id == first.id
                        for x in ast.walk(scope)
                    ):
                        feat.add("composite_observer.features:<feature_type>.value")
        return lit, feat

    a, b = keys(gos), keys(go)
    if a[0] == b[0] and a[1] == b[1] and a[0] and a[1]:
        chk.ok("R18.d", go.qualname, go.loc(), f"keys {sorted(a[0])} + one key per composite feature type in both")
    else:
        chk.violation(
            "R18.d", go, None,
            f"observation keys {sorted(b[0])}/{sorted(b[1])} differ from the declared space's {sorted(a[0])}/{sorted(a[1])}",
        )


# --------------------------------------------------------------------- R18.e
def _module_const(ctx, fi, e):
    """Resolves a module-level constant name to its value expression."""
    seen = 0
    while isinstance(e, ast.Name) and seen < 4:
        # code inlined from another module resolves its globals there
        mi = ctx.repo.modules.get(getattr(e, "_origin_mod", None) or "") or fi.module
        if e.id not in mi.assigns:
            break
        e = mi.assigns[e.id]
        seen += 1
    return e


def _fill_values(ctx, ff, f, pv, _depth=0):
    """(default fill expr, removed-nodes fill expr) from the expression
    passed as padding_value: a defaultdict with an override, or a helper /
    conditional keyed on the removed-nodes key."""
    if pv is None:
        return None, None
    # a hoisted argument / plain local: `_v = TABLE.get(key, D)` ... padding_value=_v
    for _k in range(3):
        if isinstance(pv, ast.Name):
            ds = [d for d in ctx.flow.defs(ff).of(pv.id)]
            if len(ds) == 1 and ds[0][0] == "value" and isinstance(ds[0][1], (ast.Call, ast.Subscript, ast.IfExp, ast.Name)):
                pv = ds[0][1]
                continue
        break
    # (1) dict lookup
    if isinstance(pv, ast.Subscript) and isinstance(pv.value, ast.Name):
        dname = pv.value.id
        default = mask = None
        for n in own_nodes(ff.node):
            if isinstance(n, (ast.Assign, ast.AnnAssign)):
                t = n.targets[0] if isinstance(n, ast.Assign) else n.target
                if isinstance(t, ast.Name) and t.id == dname and isinstance(n.value, ast.Call) and (dotted(n.value.func) or "").endswith("defaultdict") and n.value.args:
                    lam = n.value.args[0]
                    if isinstance(lam, ast.Lambda):
                        default = _module_const(ctx, f, lam.body)
                if isinstance(t, ast.Subscript) and isinstance(t.value, ast.Name) and t.value.id == dname and "REMOVED_NODES" in ast.unparse(_module_const(ctx, f, t.slice)):
                    mask = _module_const(ctx, f, n.value)
        return default, mask
    # (1b) TABLE.get(key, DEFAULT) on a dict literal (local or module level)
    if (
        isinstance(pv, ast.Call) and isinstance(pv.func, ast.Attribute) and pv.func.attr == "get"
        and isinstance(pv.func.value, ast.Name) and len(pv.args) == 2
    ):
        tbl = _module_const(ctx, f, pv.func.value)
        if isinstance(tbl, ast.Name):
            for n in own_nodes(ff.node):
                if isinstance(n, (ast.Assign, ast.AnnAssign)) and n.value is not None:
                    t = n.targets[0] if isinstance(n, ast.Assign) else n.target
                    if isinstance(t, ast.Name) and t.id == tbl.id:
                        tbl = n.value
        if isinstance(tbl, ast.Dict):
            mask = None
            for k, v in zip(tbl.keys, tbl.values):
                if k is not None and "REMOVED_NODES" in ast.unparse(_module_const(ctx, f, k)):
                    mask = _module_const(ctx, f, v)
            others = [k for k in tbl.keys if k is None or "REMOVED_NODES" not in ast.unparse(_module_const(ctx, f, k))]
            if not others:
                return _module_const(ctx, f, pv.args[1]), mask
        return None, None
    # (1c) a local filled under a test on the key (an inlined helper):
    #      if key == <removed-nodes key>: v = True  else: v = -1
    if isinstance(pv, ast.Name):
        default = mask = None
        for n in own_nodes(ff.node):
            if not isinstance(n, ast.If):
                continue
            tt = " ".join(ast.unparse(_module_const(ctx, f, x)) for x in ast.walk(n.test) if isinstance(x, (ast.Name, ast.Attribute)))
            if "REMOVED_NODES" not in tt or not (isinstance(n.test, ast.Compare) and isinstance(n.test.ops[0], (ast.Eq, ast.NotEq))):
                continue
            def val_in(block):
                for st in block:
                    for m in ast.walk(st):
                        if isinstance(m, ast.Assign) and any(isinstance(t, ast.Name) and t.id == pv.id for t in m.targets):
                            return _module_const(ctx, f, m.value)
                return None
            a, b = val_in(n.body), val_in(n.orelse)
            if a is not None and b is not None:
                mask, default = (a, b) if isinstance(n.test.ops[0], ast.Eq) else (b, a)
        if default is not None and mask is not None:
            return default, mask
    # (2) helper call / conditional expression
    tests = []
    if isinstance(pv, ast.Call):
        ts, _ = ctx.res.callees(ff, pv, ff.cls)
        if len(ts) == 1:
            h = ts[0]
            hb = [x for x in h.node.body if not (isinstance(x, ast.Expr) and isinstance(x.value, ast.Constant))] if not isinstance(h.node, ast.Lambda) else []
            if len(hb) == 1 and isinstance(hb[0], ast.Return) and hb[0].value is not None and not isinstance(hb[0].value, ast.Constant) and _depth < 3:
                # a one-expression accessor (`return TABLE.get(key, DEFAULT)`): judged by what it returns
                got = _fill_values(ctx, h, h, hb[0].value, _depth + 1)
                if got != (None, None):
                    return got
            default = mask = None
            for n in own_nodes(h.node):
                if isinstance(n, ast.If) and len(n.body) == 1 and isinstance(n.body[0], ast.Return):
                    tt = " ".join(ast.unparse(_module_const(ctx, h, x)) for x in ast.walk(n.test) if isinstance(x, (ast.Name, ast.Attribute)))
                    if "REMOVED_NODES" in tt and isinstance(n.test, ast.Compare) and isinstance(n.test.ops[0], ast.Eq):
                        mask = _module_const(ctx, h, n.body[0].value)
            rets = [n for n in h.node.body if isinstance(n, ast.Return)]
            if rets:
                default = _module_const(ctx, h, rets[-1].value)
            return default, mask
    if isinstance(pv, ast.IfExp):
        tt = " ".join(ast.unparse(_module_const(ctx, f, x)) for x in ast.walk(pv.test) if isinstance(x, (ast.Name, ast.Attribute)))
        if "REMOVED_NODES" in tt and isinstance(pv.test, ast.Compare) and isinstance(pv.test.ops[0], ast.Eq):
            return _module_const(ctx, f, pv.orelse), _module_const(ctx, f, pv.body)
    return None, None


def padding(ctx):
    chk, repo = ctx.chk, ctx.repo
    multi = repo.find_class("MultiJobShopGraphEnv")
    f = _padder(ctx, multi)
    ff = ctx.norm.flat(f)
    fw0 = [n for n in own_nodes(ff.node) if isinstance(n, ast.Call) and (dotted(n.func) or "") == "add_padding"]
    if not fw0:
        raise AnalysisError("_add_padding_to_observation: add_padding call not found")
    pv = next((k.value for k in fw0[0].keywords if k.arg == "padding_value"), fw0[0].args[2] if len(fw0[0].args) > 2 else None)
    default, mask = _fill_values(ctx, ff, f, pv)
    if default is None or mask is None:
        raise AnalysisError("_add_padding_to_observation: fill values not recognised")
    dv = linear(default)
    if dv == {1: -1}:
        chk.ok("R18.e", f.qualname, f.loc(default), "default fill value -1")
    else:
        chk.violation("R18.e", f, default, f"padding fill value is `{ast.unparse(default)}`, the declared one is -1", loc=f.loc(default))
    if isinstance(mask, ast.Constant) and mask.value is True:
        chk.ok("R18.e", f.qualname, f.loc(mask), "removed-nodes mask padded with True")
    else:
        chk.violation("R18.e", f, mask, f"the removed-nodes mask is padded with `{ast.unparse(mask)}`: padded (non-existent) nodes appear present", loc=f.loc(mask))
    # the padding value must be forwarded to add_padding
    fw = fw0
    if not fw or not any(k.arg == "padding_value" for k in fw[0].keywords):
        chk.violation("R18.e", f, fw[0] if fw else None, "the per-key fill value is not passed to add_padding")
    ap = repo.find_function("add_padding")
    # the block of the output the data is copied into: `out[<idx>] = array`,
    # <idx> expanded through local aliases and one-expression helpers
    apf = ctx.norm.flat(ap)
    stores = [
        n for n in own_nodes(apf.node)
        if isinstance(n, ast.Assign) and len(n.targets) == 1 and isinstance(n.targets[0], ast.Subscript)
        and ctx.norm.xtext(apf, n.value) == ap.params[0]
    ]
    sl = []
    for st in stores:
        idx = ctx.norm.xexpr(apf, st.targets[0].slice)
        sl += [n for n in ast.walk(idx) if isinstance(n, ast.Call) and isinstance(n.func, ast.Name) and n.func.id == "slice"]
    if not sl:
        sl = [n for n in own_nodes(ap.node) if isinstance(n, ast.Call) and isinstance(n.func, ast.Name) and n.func.id == "slice"]
    if len(sl) != 1:
        raise AnalysisError("add_padding: slice construction not recognised")
    a0 = sl[0].args[0] if len(sl[0].args) >= 2 else ast.Constant(0)
    if isinstance(a0, ast.Constant) and a0.value in (0, None):
        chk.ok("R18.e", ap.qualname, ap.loc(sl[0]), "data copied to the leading corner: padding only at the end")
    else:
        chk.violation("R18.e", ap, sl[0], f"data is copied starting at `{ast.unparse(a0)}`: padding is not at the end", loc=ap.loc(sl[0]))
    dflt = None
    args = ap.node.args
    for p, d in zip(args.args[-len(args.defaults):], args.defaults):
        if p.arg == "padding_value":
            dflt = d
    if isinstance(dflt, ast.Name):
        dflt = _module_const(ctx, ap, dflt)  # a named constant of the module (possibly imported)
    if dflt is not None and linear(dflt) == {1: -1}:
        chk.ok("R18.e", ap.qualname, ap.loc(), "add_padding default fill -1 (used for the edge index)")
    else:
        chk.violation("R18.e", ap, dflt, "add_padding's default fill value is not -1 (edge-index padding)")
    full = [n for n in own_nodes(ap.node) if isinstance(n, ast.Call) and (dotted(n.func) or "").endswith("full")]
    if full:
        fv = [k.value for k in full[0].keywords if k.arg == "fill_value"] or full[0].args[1:2]
        if fv and isinstance(fv[0], ast.Name) and fv[0].id == "padding_value":
            chk.ok("R18.e", ap.qualname, ap.loc(full[0]), "array pre-filled with padding_value")
        else:
            chk.violation("R18.e", ap, full[0], "the padded array is not pre-filled with padding_value", loc=ap.loc(full[0]))


def freshness(ctx):
    """R18.f - every observation is derived from the *current* graph and
    freshly padded: no path returns a stored array."""
    chk, repo = ctx.chk, ctx.repo
    single = repo.find_class("SingleJobShopGraphEnv")
    go = single.methods.get("get_observation")
    if go is None:
        raise AnalysisError("get_observation vanished")
    # every returning path of get_observation (private helpers inlined) reads
    # the edges of the current graph
    eng = ctx.engine(relevant=lambda e: e.kind == "call" and e.data.get("attr") == "edges", max_depth=3)
    bad = False
    n = 0
    for p in eng.paths(go, single):
        if p.outcome != "return":
            continue
        n += 1
        if not any(e.kind == "call" and e.data.get("attr") == "edges" for e in p.events):
            bad = True
            last = p.events[-1] if p.events else None
            chk.violation(
                "R18.f", go, last.node if last else None,
                "a path of get_observation returns without reading the current graph's edges(): the observation "
                "can show the edge list of an earlier step (stale cache)",
                loc=last.loc if last else go.loc(), path=p.describe(),
            )
            break
    if n == 0:
        raise AnalysisError("get_observation: no return path")
    if not bad:
        chk.ok("R18.f", go.qualname, go.loc(), f"{n} return paths read graph.edges() of the current graph")
    gof = ctx.norm.flat(go)
    src = ast.unparse(gof.node)
    # read through a local (`graph = self.job_shop_graph` ... `graph.removed_nodes`) is the same read
    via_local = any(
        isinstance(x, ast.Attribute) and x.attr == "removed_nodes" and ctx.norm.xtext(gof, x) == "self.job_shop_graph.removed_nodes"
        for x in own_nodes(gof.node)
    )
    if "self.job_shop_graph.removed_nodes" in src or via_local:
        chk.ok("R18.f", go.qualname, go.loc(), "removed-nodes mask rebuilt from the current graph on every call")
    else:
        chk.violation("R18.f", go, None, "get_observation does not rebuild the removed-nodes mask from the current graph")
    multi = repo.find_class("MultiJobShopGraphEnv")
    f = _padder(ctx, multi, fallback=True)
    loops = [x for x in own_nodes(f.node) if isinstance(x, ast.For)]
    if len(loops) != 1:
        raise AnalysisError("_add_padding_to_observation: loop not recognised")
    lp = loops[0]
    if not any(isinstance(n, ast.Call) and (dotted(n.func) or "").split(".")[-1] == "add_padding" for n in own_nodes(f.node)):
        # padding re-implemented in place: where do the arrays written into the
        # observation come from?
        from ..dataflow import is_shared

        d = ast.unparse(lp.iter.func.value) if isinstance(lp.iter, ast.Call) and isinstance(lp.iter.func, ast.Attribute) else None
        stores = [st for st in ast.walk(lp) if isinstance(st, ast.Assign) and isinstance(st.targets[0], ast.Subscript) and ast.unparse(st.targets[0].value) == d]
        if not stores:
            raise AnalysisError("_add_padding_to_observation: no store into the observation found")
        for st in stores:
            shared = [o for o in ctx.flow.origins(f, st.value, multi) if is_shared(o) and o[0] in ("attr", "elem", "cached") and "self" in repr(o)]
            if shared:
                chk.violation(
                    "R18.f", f, st,
                    f"`{ast.unparse(st)[:80]}` puts an array into the observation that is kept in the environment "
                    f"(origin {shared[0][:3]}): successive observations share one buffer, and cells a smaller "
                    "observation does not overwrite keep the values of an earlier one instead of the declared fill value",
                    loc=f.loc(st),
                )
                return
        raise AnalysisError("MultiJobShopGraphEnv: no method calls add_padding")
    def _pad_assigns(stmts):
        out = []
        for st in stmts:
            if isinstance(st, ast.Assign) and isinstance(st.targets[0], ast.Subscript):
                v = ctx.norm.xexpr(f, st.value)  # `padded = add_padding(...); obs[key] = padded`
                if isinstance(v, ast.Call) and (dotted(v.func) or "") == "add_padding":
                    out.append(st)
            elif isinstance(st, ast.If) and "isinstance" in ast.unparse(st.test) and "ndarray" in ast.unparse(st.test) and not st.orelse:
                out += _pad_assigns(st.body)
        return out

    direct = _pad_assigns(lp.body)
    if direct:
        chk.ok("R18.f", f.qualname, f.loc(direct[0]), "every array is re-padded into a fresh array on every call")
    else:
        chk.violation(
            "R18.f", f, lp,
            "padded arrays are not rebuilt by add_padding on every call (conditional / cached buffers): after a "
            "larger episode the tail of a smaller observation keeps old values instead of the declared fill value",
            loc=f.loc(lp),
        )


def run(ctx):
    chk = ctx.chk
    from .common import check_late_binding

    check_late_binding(ctx, "R18.h", ("job_shop_lib.reinforcement_learning",), "the environments")
    from .common import check_mutable_defaults

    check_mutable_defaults(ctx, "R18.g", ("job_shop_lib.reinforcement_learning",), "the environments")
    chk.rule("R18.f", "observations are rebuilt from the current graph and freshly padded on every call (no stored arrays)")
    chk.rule("R18.a", "MultiJobShopGraphEnv.reset forwards every configuration keyword the constructor forwards, from the attribute storing that argument")
    chk.rule("R18.b", "declared MultiDiscrete ranges contain every legal job id, machine id (and -1), node id (and -1)")
    chk.rule("R18.c", "truncated is constantly False; done = schedule.is_complete() after the dispatch; multi env passes them through")
    chk.rule("R18.d", "observation dict and observation space are built over the same keys and sources")
    chk.rule("R18.e", "padding fill values: True for removed_nodes, -1 otherwise; data in the leading corner")
    ctx.attempt(sibling_constructor_agreement, ctx, "R18.a")
    ctx.attempt(action_and_edge_ranges, ctx)
    ctx.attempt(feature_boxes, ctx)
    ctx.attempt(step_flags, ctx)
    ctx.attempt(key_agreement, ctx)
    ctx.attempt(freshness, ctx)  # before padding(): a stale-buffer finding must not be hidden by an unrecognised fill-value idiom
    ctx.attempt(padding, ctx)
