"""C05 - state queries agree with the schedule, whatever was asked before.

Decides the memoisation half ("never depends on which other queries were
called earlier ... never reflects an earlier state"):

R05.a  invalidation completeness: on every path of every Dispatcher method a
       write to state the cached queries read is followed by a cache clear
       before any observer is notified and before the method returns.
R05.b  cached results are never mutated: no mutator call / subscript store /
       in-place operator on an object aliased to the result of a memoised
       query - inside Dispatcher, package wide, and through parameters of
       package functions the result is passed to.
R05.c  every memoised method takes only ``self`` (the memo key is the name).
R05.d  memoised queries are pure: their call closure writes nothing shared
       except the memo table and reads no nondeterministic source.
R05.e  the unscheduled-operations observer mirrors the dispatch: ``update``
       pops exactly the head of the dispatched operation's job deque;
       ``reset`` rebuilds every deque from the instance.
R05.f  no for-loop variable of these modules is read after its loop (a statement
       left one indentation level too shallow sees only the last element).
"""

from __future__ import annotations

import ast

from ..dataflow import is_shared
from ..repo import AnalysisError, FuncInfo, own_nodes
from .roles import dispatcher_roles
from .common import (
    DISPATCHER,
    cached_methods,
    is_empty_dict,
    is_empty_list,
    is_memo_fill,
    is_notify,
    new_private_state,
    only_called_from,
    resolve_root,
    self_attr_reads,
)

MANIFEST = {
    "text": (
        "Decides the history-independence half of C05 for all states and query "
        "sequences: every write to dispatcher state that a memoised query reads "
        "is followed by a cache clear before observers run or the method "
        "returns (all paths of all Dispatcher methods, Schedule.add/reset "
        "inlined); no code in the package mutates an object aliased to a "
        "memoised result (alias analysis through locals, properties and "
        "parameters); memoised methods are nullary and side-effect free; the "
        "unscheduled-operations observer pops exactly the dispatched job's "
        "head. Not decided: that each query's value equals an independent "
        "recomputation (partitions, current time) - value-level."
        " Also decided: no for-loop variable of these modules is read after its loop (statement left one indentation level too shallow)."
        ' Also decided: current_time() is the earliest start over available_operations() (the filtered list).'
    ),
    "note": (
        "Alias model: flow-insensitive local definitions, attribute chains, "
        "property returns, one level of container elements; reflection "
        "(setattr/__dict__) is absent from the package (checked). Writes to "
        "Dispatcher attributes from outside the class are reported as "
        "observations, not decided."
    ),
    "technique": "path enumeration with inlining (write -> cache clear -> notify automaton) + interprocedural alias analysis of memoised results",
    "ref": "DESIGN.md §3 C05",
}
UNDECIDED = [
    "each query equals an independent recomputation from instance + history (partition laws, current time) - value-level",
]
ASSUMPTIONS = [
    "no reflection (setattr/__dict__/exec) on the analysed classes - checked, exit 2 otherwise",
    "user-supplied filters/observers are outside the quantifier",
]


def _origin_cached(o):
    """('cached', q, node) if origin o denotes a memoised result itself."""
    if o[0] == "cached":
        return o
    return None


CACHE = ["_cache"]  # the dispatcher's memo dict, found by role in run()


def _clock_source(ctx, disp):
    """R05.g - the current time is the earliest start over the *available*
    operations, i.e. what the installed ready-operations filter lets through:
    ongoing / completed / uncompleted are all defined against that clock, and
    a filter may well hide the operation that could start first (the built-in
    dominated-operations filter does, for zero-duration operations)."""
    chk = ctx.chk
    chk.rule("R05.g", "current_time() is the earliest start over available_operations() (the filtered list), not over the raw ready list")
    ct = ctx.repo.method(disp, "current_time")
    if ct is None:
        raise AnalysisError("Dispatcher.current_time vanished")
    f = ctx.norm.flat(ct, depth=3)
    calls = [n for n in own_nodes(f.node) if isinstance(n, ast.Call) and isinstance(n.func, ast.Attribute) and n.func.attr == "min_start_time"]
    if len(calls) != 1:
        raise AnalysisError("Dispatcher.current_time: the min_start_time(...) call is not recognised")
    if calls[0].args:
        src = ctx.norm.xexpr(f, calls[0].args[0])
    else:
        # min_start_time() with the list left out: what the method itself takes then (`if operations is None: operations = ...`)
        mst = ctx.repo.method(disp, "min_start_time")
        src = None
        if mst is not None and len(mst.params) > 1:
            pn = mst.params[1]
            for st in own_nodes(mst.node):
                if isinstance(st, ast.If) and ast.unparse(st.test).replace(" ", "") == f"{pn}isNone" and len(st.body) == 1 and isinstance(st.body[0], ast.Assign) \
                        and ast.unparse(st.body[0].targets[0]) == pn:
                    src = ctx.norm.xexpr(mst, st.body[0].value)
        if src is None:
            raise AnalysisError("Dispatcher.current_time: min_start_time() is called without a list and its default is not recognised")
    t = ast.unparse(src)
    if isinstance(src, ast.Call) and isinstance(src.func, ast.Attribute) and src.func.attr == "available_operations":
        chk.ok("R05.g", ct.qualname, f.loc(calls[0]), "min_start_time(self.available_operations())")
    elif "raw_ready_operations" in t or "ready_operations" in t and "available" not in t:
        chk.violation(
            "R05.g", ct, calls[0],
            f"the clock is computed over `{t[:60]}`, the unfiltered ready list: when the installed filter hides the operation "
            "that could start first, current_time() lags behind the time every other query is defined against, and "
            "ongoing / completed / uncompleted operations no longer agree with a recomputation",
            loc=f.loc(calls[0]),
        )
    else:
        raise AnalysisError(f"Dispatcher.current_time: source of the clock `{t[:60]}` not recognised")


def run(ctx):
    chk, repo = ctx.chk, ctx.repo
    from .common import check_loop_variable_leaks, modules_defining

    scope = modules_defining(ctx, "job_shop_lib.dispatching", lambda n: n in ("Dispatcher", "UnscheduledOperationsObserver"))
    check_loop_variable_leaks(ctx, "R05.f", scope, "the dispatcher")
    CACHE[0] = dispatcher_roles(ctx)["cache"]
    chk.rule("R05.a", "state write -> cache clear before any notify/return, on every path of every Dispatcher method")
    chk.rule("R05.b", "no mutation of an object aliased to a memoised query result (package wide, through parameters)")
    chk.rule("R05.c", "memoised methods take only self (memo key is the method name)")
    chk.rule("R05.d", "memoised queries are pure: closure writes nothing shared but the memo, reads no nondeterministic source")
    chk.rule("R05.e", "UnscheduledOperationsObserver.update pops the head of the dispatched job's deque; reset rebuilds all deques")

    disp = repo.find_class(DISPATCHER)
    cached = cached_methods(ctx, disp)
    chk.floor("R05.c", len(cached), 8, "memoised methods")
    ctx.attempt(_no_reflection, ctx)
    ctx.attempt(_clock_source, ctx, disp)

    # ---------------------------------------------------------------- R05.c
    for m in cached:
        a = m.node.args
        extra = [p for p in m.params[1:]] + ([a.vararg.arg] if a.vararg else []) + ([a.kwarg.arg] if a.kwarg else [])
        if extra:
            chk.violation(
                "R05.c", m, None,
                f"memoised method takes parameters {extra}: results for different arguments share one memo slot",
            )
        else:
            chk.ok("R05.c", m.qualname, m.loc())

    # a memoised query must return a re-iterable value: a generator / map /
    # filter / zip object is consumed by the first caller and empty for the next
    for m in cached:
        for r in own_nodes(m.node):
            if isinstance(r, ast.Return) and r.value is not None:
                v = ctx.norm.xexpr(m, r.value)
                one_shot = isinstance(v, ast.GeneratorExp) or (
                    isinstance(v, ast.Call) and isinstance(v.func, ast.Name) and v.func.id in ("map", "filter", "zip", "iter", "reversed", "enumerate")
                ) or any(isinstance(y, (ast.Yield, ast.YieldFrom)) for y in own_nodes(m.node))
                if one_shot:
                    chk.violation(
                        "R05.d", m, r,
                        f"the memoised {m.name}() returns a one-shot iterator (`{ast.unparse(r.value)[:50]}`): the memo hands the same "
                        "object to every caller in this state, the first one exhausts it and the others see nothing",
                        loc=m.loc(r),
                    )
    # ------------------------------------------- read set of memoised queries
    eff = ctx.effects
    read_set: set[str] = set()
    for m in cached:
        for f, rc, via in eff.closure(m, disp, max_depth=5):
            if f.cls is not None and disp.qualname in f.cls.mro:
                read_set |= self_attr_reads(f)
    method_names = set(disp.methods)
    state = {a for a in read_set if a not in method_names and a not in (CACHE[0], "subscribers", "__class__")}
    chk.analysed["memoised_read_set"] = sorted(state)
    if len(state) < 4:
        raise AnalysisError(f"read set of memoised queries implausibly small: {sorted(state)}")

    from ..baseline_api import BASELINE_ATTRS

    pinned_attrs = set(BASELINE_ATTRS.get("Dispatcher", ()))
    incremental: dict[str, set] = {}

    # bookkeeping that memoised queries themselves keep up to date (private attributes the pinned classes do not
    # have, written in the call closure of a cached query): only such state makes a scheme "incremental"; the
    # dispatcher's own tracking state, however it is housed, is not
    query_written: set[str] = set()
    for m_ in cached:
        try:
            for w_ in eff.closure_writes(m_, disp, max_depth=5):
                nps_ = new_private_state(ctx, w_)
                if nps_ is not None:
                    query_written.add(nps_)
        except Exception:
            pass

    def _new_private(ev):
        """name of the private attribute, unknown to the pinned class it belongs to, that the write event stores into
        - if memoised queries keep that attribute themselves (see query_written)"""
        got = _new_private_any(ev)
        if got is None:
            return None
        return got if got.rsplit(".", 1)[-1] in query_written else None

    def _new_private_any(ev):
        d_attr = (resolve_root(ev)[1] or [""])[0]
        if d_attr.startswith("_") and not d_attr.startswith("__") and d_attr not in pinned_attrs:
            return d_attr
        fi_, tgt_ = ev.fi, ev.data.get("target")
        ci_ = getattr(fi_, "cls", None)
        while isinstance(tgt_, ast.Subscript):
            tgt_ = tgt_.value
        if ci_ is not None and fi_.params and isinstance(tgt_, ast.Attribute) and isinstance(tgt_.value, ast.Name) and tgt_.value.id == fi_.params[0]:
            known_ = set()
            for q_ in ci_.mro:
                known_ |= set(BASELINE_ATTRS.get(q_.rsplit(".", 1)[-1], ()))
            if ci_.name in BASELINE_ATTRS and tgt_.attr.startswith("_") and not tgt_.attr.startswith("__") and tgt_.attr not in known_:
                return f"{ci_.name}.{tgt_.attr}"
        return None

    # ---------------------------------------------------------------- R05.a
    def relevant(e):
        if e.kind == "write" and not e.data.get("local"):
            return True
        return e.kind == "call" and e.data.get("attr") in ("update", "reset")

    eng = ctx.engine(relevant=relevant)
    n_paths = 0
    entries = [
        m for m in disp.methods.values()
        if m not in cached and m.name != "__init__" and not m.name.startswith("__")
    ] + list(disp.setters.values())
    # a private helper reached only from other Dispatcher methods is judged
    # where it is called (the engine inlines it): its callers may clear the
    # cache after it returns
    public = {m for m in entries if not m.name.startswith("_")}
    callers_ok = public | {m for m in disp.methods.values() if m.name.startswith("__")}
    helpers = {
        m for m in entries
        if m.name.startswith("_") and m not in public and only_called_from(ctx, m, callers_ok)
    }
    for m in sorted(entries, key=lambda f: f.qualname):
        if m in helpers:
            chk.ok("R05.a", m.qualname, m.loc(), "private helper: judged inlined at its call sites")
            continue
        paths = eng.paths(m, disp)
        n_paths += len(paths)
        bad = False
        for p in paths:
            if p.outcome == "raise":
                continue
            dirty = None
            for ev in p.events:
                if ev.kind == "write" and not ev.data.get("local"):
                    root, chain, fr = resolve_root(ev)
                    if fr is None or fr.parent is not None or root != "self" or not chain:
                        continue
                    if chain[0] == CACHE[0]:
                        if _is_clear(ev):
                            dirty = None
                        continue
                    if chain[0] in state and not is_memo_fill(ctx, ev):
                        dirty = ev
                elif dirty is not None and is_notify(ctx, ev):
                    d_attr = _new_private(dirty)
                    if d_attr is not None:
                        incremental.setdefault(m.name, set()).add(d_attr)
                        dirty = None
                        continue
                    bad = True
                    chk.violation(
                        "R05.a", m, dirty.node,
                        f"observers are notified ({ev.data.get('text')}) while the query cache still "
                        f"holds results computed before `{dirty.data.get('text')}`",
                        loc=dirty.loc, path=p.describe(),
                    )
                    dirty = None
                    break
            if dirty is not None:
                d_attr = _new_private(dirty)
                if d_attr is not None:
                    # bookkeeping the pinned tree does not have, written without a cache clear after it (kept
                    # by a query, re-initialised by reset after the clear): an incremental scheme, refused below
                    incremental.setdefault(m.name, set()).add(d_attr)
                    continue
                bad = True
                chk.violation(
                    "R05.a", m, dirty.node,
                    f"`{dirty.data.get('text')}` changes state the memoised queries read, and the "
                    "method returns without clearing the cache: later queries reflect the earlier state",
                    loc=dirty.loc, path=p.describe(),
                )
        if not bad:
            chk.ok("R05.a", m.qualname, m.loc(), f"{len(paths)} paths")
    chk.analysed["dispatcher_paths"] = n_paths
    chk.floor("R05.a", len(entries), 12, "Dispatcher methods")
    # the dispatch path must contain at least one state write + clear
    if not any(i["rule"] == "R05.a" and i["verdict"] != "holds" for i in chk.instances) and not any(
        ev.kind == "write" and resolve_root(ev)[1][:1] == [CACHE[0]]
        for p in eng.paths(repo.need_method(disp, "dispatch"), disp) for ev in p.events
    ):
        raise AnalysisError("no cache clear found on any dispatch path (matcher blind or clear removed)")

    # writes to the read set from outside the class (observation only)
    for fi in repo.all_functions():
        if fi.cls is not None and disp.qualname in fi.cls.mro:
            continue
        for n in own_nodes(fi.node):
            if isinstance(n, ast.Attribute) and isinstance(n.ctx, ast.Store) and n.attr in state:
                if ctx.types.is_a(fi.module, n.value, disp.qualname):
                    chk.notes.append(
                        f"observation: {fi.loc(n)} {fi.qualname} assigns Dispatcher.{n.attr} from outside the "
                        "class without clearing the query cache"
                    )

    # ---------------------------------------------------------------- R05.b
    flow = ctx.flow
    n_sites = 0
    n_writes = 0
    # (1) direct mutation of an alias of a memoised result
    param_writers: dict[str, set[int]] = {}
    for fi in repo.all_functions():
        if isinstance(fi.node, ast.Lambda):
            continue
        rc = fi.cls
        for w in _writes(ctx, fi, rc):
            n_writes += 1
            for o in w.origins:
                c = _origin_cached(o)
                if c is not None:
                    chk.violation(
                        "R05.b", fi, w.event.node,
                        f"mutates the list memoised by {c[1].split('.')[-1]}(): the next call of that "
                        "query in the same state returns the modified object",
                        loc=w.loc,
                    )
                elif o[0] == "param" and o[1] in fi.params:
                    param_writers.setdefault(fi.qualname, set()).add(fi.params.index(o[1]))
    # (2) memoised result passed to a function that mutates that parameter
    for fi in repo.all_functions():
        if isinstance(fi.node, ast.Lambda):
            continue
        for ev, t, trc in ctx.effects.calls(fi, fi.cls):
            idxs = param_writers.get(t.qualname)
            if not idxs or not isinstance(ev.node, ast.Call):
                continue
            call = ev.node
            offs = 1 if (t.cls is not None and not t.is_static) else 0
            for i in idxs:
                ai = i - offs
                arg = None
                if 0 <= ai < len(call.args):
                    arg = call.args[ai]
                else:
                    for kw in call.keywords:
                        if kw.arg == t.params[i]:
                            arg = kw.value
                if arg is None:
                    continue
                for o in flow.origins(fi, arg, fi.cls):
                    c = _origin_cached(o)
                    if c is not None:
                        chk.violation(
                            "R05.b", fi, call,
                            f"passes the list memoised by {c[1].split('.')[-1]}() to {t.name}, "
                            f"which mutates its parameter `{t.params[i]}`",
                            loc=fi.loc(call),
                        )
    # count call sites of memoised queries (coverage + floor)
    cached_names = {m.name for m in cached}
    for fi in repo.all_functions():
        for n in own_nodes(fi.node):
            if isinstance(n, ast.Call) and isinstance(n.func, ast.Attribute) and n.func.attr in cached_names:
                ts, _ = ctx.res.callees(fi, n, fi.cls)
                if any(t in cached for t in ts):
                    n_sites += 1
                    org = None
    chk.analysed["memoised_query_call_sites"] = n_sites
    chk.analysed["write_sites_alias_checked"] = n_writes
    if n_sites < 30:
        raise AnalysisError(f"only {n_sites} call sites of memoised queries resolved (floor 30)")
    if not any(i["rule"] == "R05.b" for i in chk.instances):
        chk.ok("R05.b", "package", "", f"{n_sites} call sites of memoised queries, {n_writes} write sites alias-checked, none mutates a memoised result")

    # ---------------------------------------------------------------- R05.d
    for m in cached:
        bad = False
        for w in eff.closure_writes(m, disp, max_depth=5):
            if is_memo_fill(ctx, w.event):
                continue  # a correctly invalidated private memo of another object
            root, chain, _ = resolve_root(w.event)
            if root == "self" and chain[:1] == [CACHE[0]]:
                continue
            shared = [o for o in w.origins if is_shared(o) and o[0] not in ("unknown",)]
            if not shared:
                continue
            nps = new_private_state(ctx, w)
            if nps is not None:
                incremental.setdefault(m.name, set()).add(nps)
                continue
            bad = True
            chk.violation(
                "R05.d", m, w.event.node,
                f"memoised query (via {w.fi.name}) mutates shared state: {w.event.data.get('text')}",
                loc=w.loc, path=[*w.via, w.fi.qualname],
            )
        for f, ev, name, via in eff.nondet_reads(m, disp, max_depth=5):
            bad = True
            chk.violation(
                "R05.d", m, ev.node,
                f"memoised query reads a nondeterministic/external source `{name}` in {f.name}",
                loc=f.loc(ev.node), path=[*via, f.qualname],
            )
        if not bad:
            chk.ok("R05.d", m.qualname, m.loc())

    if incremental:
        def _refuse():
            q_, attrs_ = sorted(incremental.items())[0]
            raise AnalysisError(
                f"the memoised query {q_}() keeps state of its own between calls ({', '.join('self.' + a for a in sorted(attrs_))}), bookkeeping the "
                "pinned tree does not have; whether such an incremental scheme answers what a recomputation from the schedule answers "
                "is not decided by this analysis"
            )

        ctx.attempt(_refuse)
    # ---------------------------------------------------------------- R05.e
    ctx.attempt(_unscheduled_observer, ctx)


def _is_clear(ev) -> bool:
    d = ev.data
    if d.get("op") == "assign":
        st = ev.node
        return isinstance(st, (ast.Assign, ast.AnnAssign)) and is_empty_dict(st.value)
    if d.get("op") == "mutcall":
        return d.get("method") == "clear"
    return False


def _writes(ctx, fi, rc):
    """All writes of ``fi`` with the origins of the mutated object (not only
    the shared ones - the caller filters)."""
    from ..effects import Write

    eff = ctx.effects
    out = []
    for ev in eff.events(fi, rc):
        if ev.kind != "write":
            continue
        obj = eff.mutated_object(ev)
        if obj is None:
            continue
        out.append(Write(fi, ev, obj, ctx.flow.origins(fi, obj, rc), ()))
    return out


def _no_reflection(ctx):
    # only code that ever holds a dispatcher / schedule / observer can reach
    # their attributes by name
    scope = ("job_shop_lib.dispatching", "job_shop_lib._schedule", "job_shop_lib._scheduled_operation",
             "job_shop_lib.reinforcement_learning", "job_shop_lib.graphs", "job_shop_lib._base_solver")
    for fi in ctx.repo.all_functions():
        if not fi.module.name.startswith(scope):
            continue
        for n in own_nodes(fi.node):
            if isinstance(n, ast.Call) and isinstance(n.func, ast.Name) and n.func.id in ("setattr", "exec", "eval", "globals", "vars"):
                if n.func.id == "setattr" and n.args:
                    # setattr on an object of a foreign library (CP-SAT parameters ...)
                    # cannot touch the attributes analysed here
                    heads = ctx.res.classes_of(fi, n.args[0], fi.cls)
                    if heads and not any(h in ctx.repo.classes for h in heads) and not (isinstance(n.args[0], ast.Name) and ctx.res._is_self(fi, n.args[0])):
                        continue
                raise AnalysisError(f"{fi.loc(n)}: reflection ({n.func.id}) defeats attribute-level effect analysis")
            if isinstance(n, ast.Attribute) and n.attr == "__dict__" and isinstance(n.ctx, ast.Store):
                raise AnalysisError(f"{fi.loc(n)}: __dict__ store defeats attribute-level effect analysis")


def _unscheduled_observer(ctx):
    chk, repo = ctx.chk, ctx.repo
    obs = repo.find_class("UnscheduledOperationsObserver")
    upd = obs.methods.get("update")
    rst = obs.methods.get("reset")
    if upd is None or rst is None:
        raise AnalysisError("UnscheduledOperationsObserver.update/reset vanished")
    eng = ctx.engine(relevant=lambda e: e.kind == "write" and not e.data.get("local"), max_depth=1)
    sop = upd.params[1]
    bad = False
    n_pop = 0
    if any(
        isinstance(n, ast.Call) and isinstance(n.func, ast.Attribute) and isinstance(n.func.value, ast.Name) and n.func.value.id == upd.params[0]
        for n in own_nodes(upd.node)
    ):
        # steps / accessors of the observer are undone first (the deque may be
        # fetched through one)
        upd = ctx.norm.flat(upd, depth=3)
    for p in eng.paths(upd, obs):
        pops = []
        for ev in p.events:
            if ev.kind != "write" or ev.data.get("local"):
                continue
            root, chain, _ = resolve_root(ev)
            if root != "self":
                continue
            m = ev.data.get("method")
            if ev.data.get("op") == "mutcall" and chain[:1] == ["unscheduled_operations_per_job"]:
                if m != "popleft":
                    bad = True
                    chk.violation(
                        "R05.e", upd, ev.node,
                        f"removes with {m}() instead of popleft(): the mirror drops the wrong end of the job's queue",
                        loc=ev.loc,
                    )
                    continue
                # index must be the job id of the dispatched operation
                tgt = ev.data.get("target")
                idx = _deque_index(upd, tgt)
                if idx is None or not _is_job_id_of(upd, idx, sop):
                    bad = True
                    chk.violation(
                        "R05.e", upd, ev.node,
                        "the deque popped is not indexed by the dispatched operation's job id",
                        loc=ev.loc,
                    )
                pops.append(ev)
            else:
                bad = True
                chk.violation("R05.e", upd, ev.node, f"unexpected mutation in update: {ev.data.get('text')}", loc=ev.loc)
        if len(pops) > 1:
            bad = True
            chk.violation("R05.e", upd, pops[1].node, "update pops more than one operation per dispatch", loc=pops[1].loc)
        n_pop += len(pops)
    if n_pop == 0 and not bad:
        chk.violation("R05.e", upd, None, "update never removes the dispatched operation from the mirror")
        bad = True
    if not bad:
        # a notification that removes nothing may do so only because the deque
        # is empty: a test of WHICH operation is at its head drops every
        # notification that does not arrive in job order - and the constructor
        # replays an existing schedule machine by machine
        beng = ctx.engine(relevant=lambda e: e.kind == "branch" or (e.kind == "write" and not e.data.get("local")), max_depth=1)
        for p in beng.paths(upd, obs):
            if p.outcome == "raise":
                continue
            if any(ev.kind == "write" and ev.data.get("op") == "mutcall" for ev in p.events):
                continue
            culprit = None
            for ev in p.events:
                if ev.kind != "branch":
                    continue
                for e in ast.walk(ctx.norm.xexpr(ev.fi, ev.node)):
                    if not (isinstance(e, ast.Compare) and len(e.ops) == 1 and isinstance(e.ops[0], (ast.Eq, ast.NotEq, ast.Is, ast.IsNot))):
                        continue
                    names = {x.id for x in ast.walk(e) if isinstance(x, ast.Name)}
                    if sop in names and "unscheduled_operations_per_job" in ast.unparse(e):
                        culprit = ast.unparse(e)
            if culprit is not None:
                # the order in which the constructor replays an existing schedule
                init = obs.methods.get("__init__")
                replay = None
                if init is not None:
                    fin = ctx.norm.flat(init, depth=3)
                    for lp in fin.node.body:  # the outermost loop around the replayed update calls
                        if isinstance(lp, ast.For) and any(
                            isinstance(c, ast.Call) and isinstance(c.func, ast.Attribute) and c.func.attr == "update" for c in ast.walk(lp)
                        ):
                            replay = ctx.norm.xtext(fin, lp.iter)
                if replay is None or "schedule.schedule" not in replay or "sorted" in replay:
                    raise AnalysisError(
                        f"UnscheduledOperationsObserver.update tests the head of the deque (`{culprit}`) and the order in which the "
                        f"constructor replays the schedule (`{replay}`) is not the pinned machine-by-machine walk: not decided"
                    )
                bad = True
                br = next((ev for ev in p.events if ev.kind == "branch"), None)
                chk.violation(
                    "R05.e", upd, br.node if br is not None else None,
                    f"whether update removes anything depends on `{culprit}`: notifications are dropped unless they arrive in job order, "
                    "but the constructor replays an existing schedule machine by machine, so an observer created after "
                    "some dispatches keeps operations that are already scheduled",
                    loc=br.loc if br is not None else None,
                )
                break
    if not bad:
        chk.ok("R05.e", upd.qualname, upd.loc(), "pops head of the dispatched job's deque")
    # reset: rebinds the per-job list from a comprehension over instance.jobs
    ok = False
    shallow = None
    rst = ctx.norm.flat(rst, depth=2)  # private factories (used by __init__ and reset) inlined
    for n in own_nodes(rst.node):
        if isinstance(n, ast.Assign) and any(
            isinstance(t, ast.Attribute) and t.attr == "unscheduled_operations_per_job" for t in n.targets
        ):
            v = n.value
            if isinstance(v, ast.ListComp) and len(v.generators) == 1 and not v.generators[0].ifs:
                it = v.generators[0].iter
                if isinstance(it, ast.Attribute) and it.attr == "jobs":
                    ok = True
                elif (
                    isinstance(it, ast.Attribute) and ast.unparse(it.value) == rst.params[0]
                    and isinstance(v.elt, ast.Call) and ast.unparse(v.elt.func).split(".")[-1] in ("deque", "deepcopy", "copy")
                ):
                    # fresh deques copied one by one from a stored template
                    # (C12's pristine-source rule guards the template)
                    ok = True
            elif isinstance(v, ast.Call) and ast.unparse(v.func).split(".")[-1] == "deepcopy":
                ok = True
            elif (
                isinstance(v, ast.Call) and isinstance(v.func, ast.Name) and v.func.id == "list" and len(v.args) == 1
                and isinstance(v.args[0], ast.Call) and isinstance(v.args[0].func, ast.Name) and v.args[0].func.id == "map"
                and len(v.args[0].args) == 2 and ast.unparse(v.args[0].args[0]).split(".")[-1] == "deque"
                and isinstance(v.args[0].args[1], ast.Attribute) and v.args[0].args[1].attr == "jobs"
            ):
                ok = True  # list(map(deque, instance.jobs)): one fresh deque per job
            elif isinstance(v, ast.Name) and _filled_per_job(rst, v.id):
                ok = True
            else:
                src = _shallow_source(v, rst.params[0])
                if src is not None:
                    shallow = (src, n)
    if shallow is not None and not ok:
        chk.violation(
            "R05.e", rst, shallow[1],
            f"reset rebinds the mirror to a shallow copy of `self.{shallow[0]}`: the per-job deques themselves are "
            "shared with the stored template, update pops from them, and after the first episode the template "
            "(and every later reset) is missing the dispatched operations",
            loc=rst.loc(shallow[1]),
        )
        return
    if ok:
        chk.ok("R05.e", rst.qualname, rst.loc(), "rebuilds one deque per job from instance.jobs")
    else:
        bad_refill = [
            n for n in own_nodes(rst.node)
            if isinstance(n, ast.Call) and isinstance(n.func, ast.Attribute) and n.func.attr == "extendleft"
            and n.args and not (isinstance(n.args[0], ast.Call) and ast.unparse(n.args[0].func) == "reversed")
        ]
        if bad_refill:
            chk.violation(
                "R05.e", rst, bad_refill[0],
                "reset refills the job deques with extendleft(), which inserts in reverse: after a reset the "
                "mirror lists a job's operations out of order and update pops the wrong one",
                loc=rst.loc(bad_refill[0]),
            )
        else:
            raise AnalysisError(f"{rst.qualname}: reset shape not recognised")


def _filled_per_job(fi, name):
    """``name = []`` then ``for job in <...>.jobs: name.append(<fresh deque of
    job>)`` - the incremental spelling of the comprehension."""
    init = any(
        isinstance(n, (ast.Assign, ast.AnnAssign)) and n.value is not None and is_empty_list(n.value)
        and any(isinstance(t, ast.Name) and t.id == name for t in (n.targets if isinstance(n, ast.Assign) else [n.target]))
        for n in own_nodes(fi.node)
    )
    if not init:
        return False
    for lp in own_nodes(fi.node):
        if not (isinstance(lp, ast.For) and isinstance(lp.iter, ast.Attribute) and lp.iter.attr == "jobs" and isinstance(lp.target, ast.Name)):
            continue
        job = lp.target.id
        if any(isinstance(x, (ast.Break, ast.Continue, ast.If)) for st in lp.body for x in ast.walk(st)):
            return False
        apps = [
            c for st in lp.body for c in ast.walk(st)
            if isinstance(c, ast.Call) and isinstance(c.func, ast.Attribute) and c.func.attr == "append"
            and isinstance(c.func.value, ast.Name) and c.func.value.id == name and len(c.args) == 1
        ]
        if len(apps) != 1:
            return False
        a = apps[0].args[0]

        def is_deque_call(e, with_job):
            if not (isinstance(e, ast.Call) and ast.unparse(e.func).split(".")[-1] == "deque"):
                return False
            if with_job:
                return len(e.args) == 1 and isinstance(e.args[0], ast.Name) and e.args[0].id == job
            return not e.args

        if is_deque_call(a, True):
            return True
        if isinstance(a, ast.Name):
            # d = deque(job)  |  d = deque(); d.extend(job)
            dd = [n for st in lp.body for n in ast.walk(st) if isinstance(n, (ast.Assign, ast.AnnAssign)) and n.value is not None
                  and any(isinstance(t, ast.Name) and t.id == a.id for t in (n.targets if isinstance(n, ast.Assign) else [n.target]))]
            if len(dd) != 1:
                return False
            if is_deque_call(dd[0].value, True):
                return True
            if is_deque_call(dd[0].value, False):
                ext = [
                    c for st in lp.body for c in ast.walk(st)
                    if isinstance(c, ast.Call) and isinstance(c.func, ast.Attribute) and c.func.attr == "extend"
                    and isinstance(c.func.value, ast.Name) and c.func.value.id == a.id
                    and len(c.args) == 1 and isinstance(c.args[0], ast.Name) and c.args[0].id == job
                ]
                return len(ext) == 1
        return False
    return False


def _shallow_source(v, selfname):
    """X if ``v`` is self.X or a one-level copy of it (list(self.X),
    self.X.copy(), self.X[:], copy.copy(self.X))."""
    def attr(e):
        if isinstance(e, ast.Attribute) and isinstance(e.value, ast.Name) and e.value.id == selfname and e.attr != "dispatcher":
            return e.attr
        return None
    if attr(v):
        return attr(v)
    if isinstance(v, ast.Subscript) and isinstance(v.slice, ast.Slice) and attr(v.value):
        return attr(v.value)
    if isinstance(v, ast.Call):
        fn = ast.unparse(v.func)
        if fn in ("list", "tuple", "copy.copy", "copy") and len(v.args) == 1 and attr(v.args[0]):
            return attr(v.args[0])
        if isinstance(v.func, ast.Attribute) and v.func.attr == "copy" and not v.args and attr(v.func.value):
            return attr(v.func.value)
    return None


def _deque_index(fi, tgt):
    """self.unscheduled_operations_per_job[i] possibly through a local."""
    if isinstance(tgt, ast.Name):
        for n in own_nodes(fi.node):
            if isinstance(n, ast.Assign) and any(isinstance(t, ast.Name) and t.id == tgt.id for t in n.targets):
                tgt = n.value
                break
            if isinstance(n, ast.NamedExpr) and isinstance(n.target, ast.Name) and n.target.id == tgt.id:
                tgt = n.value  # if (d := self.mirror[job_id]): d.popleft()
                break
    if isinstance(tgt, ast.Subscript):
        return tgt.slice
    return None


def _is_job_id_of(fi, idx, sop_name):
    if isinstance(idx, ast.Name):
        for n in own_nodes(fi.node):
            if isinstance(n, ast.Assign) and any(isinstance(t, ast.Name) and t.id == idx.id for t in n.targets):
                idx = n.value
                break
    txt = ast.unparse(idx)
    if txt in (f"{sop_name}.job_id", f"{sop_name}.operation.job_id"):
        return True
    # through a local holding the operation: `operation = sop.operation` ... `[operation.job_id]`
    if isinstance(idx, ast.Attribute) and idx.attr == "job_id" and isinstance(idx.value, ast.Name):
        for n in own_nodes(fi.node):
            if isinstance(n, ast.Assign) and any(isinstance(t, ast.Name) and t.id == idx.value.id for t in n.targets):
                return ast.unparse(n.value) in (sop_name, f"{sop_name}.operation")
    return False
