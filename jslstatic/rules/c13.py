"""C13 - dense rewards add up to the sparse objective (structural clauses).

R13.a  every RewardObserver subclass's ``update`` appends to ``rewards``
       exactly once on every path; ``reset`` empties it; ``last_reward`` is
       the last appended value.
R13.b  ``SingleJobShopGraphEnv.step`` returns ``reward_function.last_reward``
       read after the dispatch; the multi environment passes it through.
R13.c  makespan reward shape: the appended value is (makespan before) -
       (makespan after) with after = max(before, end time of the scheduled
       operation), and the stored makespan is updated to that value.
R13.d  idle-time reward shape: the appended value is the negated gap between
       the scheduled operation's start and the end of the *previous*
       operation on the *chosen* machine (start itself when there is none);
       any per-machine state a reward keeps is indexed by the scheduled
       operation's machine_id only.
R13.e  no for-loop variable of these modules is read after its loop (a statement
       left one indentation level too shallow sees only the last element).
"""

from __future__ import annotations

import ast

from ..repo import AnalysisError, own_nodes
from .common import resolve_root, is_empty_list, source_pos

MANIFEST = {
    "text": (
        "Decides the emission-count, provenance and shape clauses of C13 for "
        "every history: each built-in reward appends exactly one value per "
        "dispatch on every path and reset empties the list (so len(rewards) = "
        "k); step returns the reward emitted for that step, read after the "
        "dispatch; the makespan reward is the telescoping difference "
        "before - max(before, end) with the stored makespan advanced to that "
        "maximum (hence non-positive and summing to minus the makespan given "
        "R12.a re-initialisation); the idle-time reward is the negated gap to "
        "the previous operation of the chosen machine; rewards are stored without a narrowing cast. Not decided: the sums "
        "as numbers."
        " Also decided: no for-loop variable of these modules is read after its loop (statement left one indentation level too shallow)."
    ),
    "note": "Shapes outside the recognised idioms (difference of old/new makespan, negated start-minus-previous-end) are ANALYSIS-ERROR.",
    "technique": "path counting of appends + def-use provenance of the appended value (telescoping shape) + return provenance in step",
    "ref": "DESIGN.md §3 C13",
}
UNDECIDED = ["the numerical sums (telescoping identity evaluated on runtime values)"]
ASSUMPTIONS = ["reset re-initialises the stored makespan from the (already reset) schedule: C12 R12.a / C10 R10.b"]


def _expand(ctx, fi, e, depth=0):
    """Substitutes single-definition locals."""
    if depth > 6:
        return e
    if isinstance(e, ast.Name):
        ds = [d for d in ctx.flow.defs(fi).of(e.id) if d[0] == "value"]
        if len(ds) == 1 and len(ctx.flow.defs(fi).of(e.id)) == 1:
            return _expand(ctx, fi, ds[0][1], depth + 1)
        # `x = None` on the "nothing there" branch and one real definition:
        # where x is dereferenced it is the real one
        real = [d for d in ds if not (isinstance(d[1], ast.Constant) and d[1].value is None)]
        if len(ds) == len(ctx.flow.defs(fi).of(e.id)) == 2 and len(real) == 1:
            return _expand(ctx, fi, real[0][1], depth + 1)
    return e


def run(ctx):
    chk, repo = ctx.chk, ctx.repo
    from .common import check_loop_variable_leaks, modules_defining

    scope = modules_defining(ctx, "job_shop_lib.reinforcement_learning", lambda n: n.endswith("Reward") or n == "RewardObserver")
    check_loop_variable_leaks(ctx, "R13.e", scope, "the reward-observer")
    for rid, txt in (
        ("R13.a", "every reward's update appends exactly one value to rewards on every path; reset empties; last_reward = rewards[-1]"),
        ("R13.b", "step returns reward_function.last_reward read after the dispatch; multi env passes it through"),
        ("R13.c", "makespan reward = before - max(before, scheduled end); stored makespan updated to that max"),
        ("R13.d", "idle-time reward = -(start - end of previous operation on the chosen machine); per-machine state indexed by the scheduled machine only"),
    ):
        chk.rule(rid, txt)
    base = repo.find_class("RewardObserver")
    subs = [c for c in repo.subclasses(base.qualname, strict=True)]
    if len(subs) < 2:
        raise AnalysisError("fewer than two reward observers found")
    eng = ctx.engine(relevant=lambda e: e.kind == "write" and not e.data.get("local"), max_depth=3)
    for c in subs:
        upd = repo.method(c, "update")
        if upd is None or "abstractmethod" in " ".join(upd.decorators):
            continue
        bad = False
        n = 0
        for p in eng.paths(upd, c):
            if p.outcome == "raise":
                continue
            n += 1
            apps = []
            for ev in p.events:
                if ev.kind == "write" and not ev.data.get("local"):
                    root, chain, fr = resolve_root(ev)
                    if root == "self" and chain[:1] == ["rewards"]:
                        if ev.data.get("method") == "append":
                            apps.append(ev)
                        else:
                            bad = True
                            chk.violation("R13.a", upd, ev.node, f"`{ev.data.get('text')}` modifies rewards other than by appending one value", loc=ev.loc)
            if len(apps) != 1 and not bad:
                bad = True
                chk.violation(
                    "R13.a", upd, apps[1].node if len(apps) > 1 else None,
                    f"a path of {c.name}.update emits {len(apps)} rewards for one dispatch (must be exactly one): "
                    "len(rewards) no longer equals the number of dispatches",
                    path=p.describe(),
                )
        if not bad:
            chk.ok("R13.a", upd.qualname, upd.loc(), f"{n} paths, one append each")
    rst = base.methods.get("reset")
    if rst is None:
        raise AnalysisError("RewardObserver.reset vanished")
    emptied = any(
        isinstance(n, ast.Assign) and ast.unparse(n.targets[0]) == "self.rewards" and is_empty_list(n.value) for n in own_nodes(rst.node)
    ) or any(isinstance(n, ast.Call) and ast.unparse(n.func) == "self.rewards.clear" for n in own_nodes(rst.node))
    if emptied:
        chk.ok("R13.a", rst.qualname, rst.loc(), "reset empties rewards")
    else:
        chk.violation("R13.a", rst, None, "RewardObserver.reset does not empty the reward list")
    for c in subs:
        r = c.methods.get("reset")
        if r is not None:
            calls_super = any(isinstance(n, ast.Call) and ast.unparse(n.func) == "super().reset" for n in own_nodes(r.node))
            own_empty = any(isinstance(n, ast.Assign) and ast.unparse(n.targets[0]) == "self.rewards" and is_empty_list(n.value) for n in own_nodes(r.node))
            if calls_super or own_empty:
                chk.ok("R13.a", r.qualname, r.loc(), "reset reaches the base reset")
            else:
                chk.violation("R13.a", r, None, f"{c.name}.reset overrides the base reset without emptying rewards")
    lr = base.methods.get("last_reward")
    if lr is None:
        raise AnalysisError("RewardObserver.last_reward vanished")
    rets = [n for n in own_nodes(lr.node) if isinstance(n, ast.Return) and n.value is not None]
    texts = [ctx.norm.xtext(lr, r.value) for r in rets]
    # every return is the last list element or the constant for "no reward yet"
    # (`x[-1] if x else 0`, or try: return x[-1] / except IndexError: return 0)
    last = [r for r, t in zip(rets, texts) if "self.rewards[-1]" in t]
    def _is_const(v):
        # a literal, or a module-level named constant (`_NO_REWARD = 0`)
        if isinstance(v, ast.Constant):
            return True
        return isinstance(v, ast.Name) and isinstance(lr.module.assigns.get(v.id), ast.Constant) and not ctx.flow.defs(lr).of(v.id)

    other = [r for r, t in zip(rets, texts) if "self.rewards[-1]" not in t and not _is_const(r.value)]
    if last and not other:
        chk.ok("R13.a", lr.qualname, lr.loc(), "last_reward = rewards[-1]")
    else:
        bad = (other or rets or [None])[0]
        t = ast.unparse(bad.value) if bad is not None else ""
        chk.violation("R13.a", lr, bad, f"last_reward is `{t}`, not the last emitted reward")

    # ---------------------------------------------------------------- R13.b
    env = repo.find_class("SingleJobShopGraphEnv")
    step = env.methods.get("step")
    disp = repo.find_class("Dispatcher")
    dispatch = repo.need_method(disp, "dispatch")
    e2 = ctx.engine(
        relevant=lambda e: e.kind == "call" and (dispatch in (e.data.get("targets") or []) or e.data.get("attr") == "last_reward"),
        max_depth=3,
        inline_filter=lambda t: t.cls is not None and t.cls.qualname in env.mro,
    )
    sf = ctx.norm.flat(step)
    defs = ctx.flow.defs(sf)
    rets = [n for n in own_nodes(sf.node) if isinstance(n, ast.Return) and isinstance(n.value, ast.Tuple) and len(n.value.elts) == 5]
    if not rets:
        raise AnalysisError("step does not return a 5-tuple literal")
    rw = rets[-1].value.elts[1]
    src = ctx.norm.xexpr(sf, rw)
    txt = ast.unparse(src)
    if txt not in ("self.reward_function.last_reward", "self.reward_function.rewards[-1]"):
        chk.violation(
            "R13.b", step, rw,
            f"step returns `{txt[:80]}` as reward, not the reward emitted for this step (reward_function.last_reward)",
            loc=sf.loc(rw),
        )
    else:
        n_paths = 0
        bad = False
        for p in e2.paths(step, env):
            if p.outcome != "return":
                continue
            n_paths += 1
            i_d = next((i for i, e in enumerate(p.events) if e.kind == "call" and dispatch in (e.data.get("targets") or [])), None)
            i_r = next((i for i, e in enumerate(p.events) if e.kind == "call" and e.data.get("attr") == "last_reward" and e.data.get("property")), None)
            if i_d is None:
                bad = True
                chk.violation("R13.b", step, None, "a returning step path never dispatches", path=p.describe())
                break
            if i_r is not None and i_r < i_d:
                bad = True
                chk.violation(
                    "R13.b", step, p.events[i_r].node,
                    "the reward is read before the action is dispatched: step returns the previous step's reward",
                    loc=p.events[i_r].loc,
                )
                break
        if not bad and n_paths:
            chk.ok("R13.b", step.qualname, step.loc(), "reward = reward_function.last_reward read after the dispatch")

    # ---------------------------------------------------------------- R13.c
    mk = repo.find_class("MakespanReward")
    ctx.attempt(_makespan_shape, ctx, mk)
    # ---------------------------------------------------------------- R13.d
    it = repo.find_class("IdleTimeReward")
    ctx.attempt(_idle_shape, ctx, it)
    # per-machine / per-job state kept by any reward: indexed by the scheduled op only
    for c in subs:
        upd = repo.method(c, "update")
        if upd is None:
            continue
        sop = upd.params[1]
        for n in own_nodes(upd.node):
            if isinstance(n, (ast.Assign, ast.AugAssign)):
                tg = n.targets if isinstance(n, ast.Assign) else [n.target]
                for t in tg:
                    if isinstance(t, ast.Subscript) and ast.unparse(t.value).startswith("self.") and "rewards" not in ast.unparse(t.value):
                        idx = _expand(ctx, upd, t.slice)
                        it_ = ast.unparse(idx)
                        if it_ in (f"{sop}.machine_id", f"{sop}.job_id", f"{sop}.operation.job_id"):
                            chk.ok("R13.d", upd.qualname, upd.loc(n), f"{ast.unparse(t.value)} indexed by {it_}")
                        else:
                            chk.violation(
                                "R13.d", upd, n,
                                f"{c.name} updates `{ast.unparse(t.value)}` at index `{it_}`, not only at the machine/job "
                                "the operation was actually scheduled on: with flexible operations the state of machines "
                                "that did not run it is overwritten and later rewards are wrong",
                                loc=upd.loc(n),
                            )


_LOSSLESS_CASTS = {"float", "np.float64", "numpy.float64", "np.double", "np.longdouble", "np.float128"}
_LOSSY_CASTS = {
    "np.float32", "numpy.float32", "np.float16", "numpy.float16", "np.half", "np.single", "int", "round",
    "np.int8", "np.int16", "np.int32", "np.uint8", "np.uint16", "np.uint32", "math.floor", "math.ceil", "math.trunc",
}


def _strip_cast(ctx, upd, val, rule, site):
    """Removes value-preserving casts around the appended reward; a narrowing
    cast is reported (None returned)."""
    for _ in range(4):
        if isinstance(val, ast.Call) and len(val.args) >= 1:
            fn = ast.unparse(val.func)
            if fn in _LOSSLESS_CASTS and len(val.args) == 1:
                val = _expand(ctx, upd, val.args[0])
                continue
            if fn in _LOSSY_CASTS:
                ctx.chk.violation(
                    rule, upd, val,
                    f"the reward is stored through `{fn}(...)`: the per-step values are rounded (float32 holds "
                    "integers exactly only up to 2**24), so their sum is no longer the negated objective",
                    loc=upd.loc(site),
                )
                return None
        break
    return val


def _makespan_by_cases(ctx, mk, upd, sop) -> bool:
    """update written as a case split on whether the operation extends the schedule:
    on every returning path exactly one reward is appended and
      - where the path knows `end <= current` (or takes no store): reward 0 / current - current, makespan kept;
      - where it knows `end > current`: reward current - end, makespan := end.
    That is reward = current - max(current, end) on both.  True when every path fits (and reports ok)."""
    from .common import path_atoms

    chk = ctx.chk
    cur, end = "self.current_makespan", f"{sop}.end_time"
    eng = ctx.engine(relevant=lambda e: e.kind in ("branch", "write", "call", "return"), max_depth=0)
    n = 0
    for p in eng.paths(upd, mk):
        if p.outcome == "raise":
            continue
        apps = [e for e in p.events if e.kind == "write" and e.data.get("method") == "append" and "rewards" in ast.unparse(e.node)]
        stores = [e for e in p.events if e.kind == "write" and isinstance(e.node, ast.Assign) and ast.unparse(e.node.targets[0]) == cur]
        if len(apps) != 1 or len(stores) > 1:
            return False
        atoms = path_atoms(ctx, p.events)
        grows = atoms.get(f"{cur} < {end}")  # True: end > current; False: end <= current
        if grows is None and atoms.get(f"{end} < {cur}") is True:
            grows = False
        if grows is None:
            return False
        arg = ctx.norm.xtext(upd, apps[0].node.args[0]).replace(" ", "") if apps[0].node.args else ""
        if grows:
            if len(stores) != 1 or ctx.norm.xtext(upd, stores[0].node.value) != end:
                return False
            before = p.events.index(apps[0]) < p.events.index(stores[0])
            if not (before and arg == f"{cur}-{end}".replace(" ", "")):
                return False
        else:
            if stores or arg not in ("0", f"{cur}-{cur}".replace(" ", "")):
                return False
        n += 1
    if n < 2:
        return False
    chk.ok("R13.c", upd.qualname, upd.loc(), f"{n} cases: reward = previous makespan - max(previous, scheduled end), makespan advanced to that max")
    return True


def _makespan_shape(ctx, mk):
    chk = ctx.chk
    upd = mk.methods.get("update")
    if upd is None:
        raise AnalysisError("MakespanReward.update vanished")
    upd = ctx.norm.flat(upd)
    sop = upd.params[1]
    app = [n for n in own_nodes(upd.node) if isinstance(n, ast.Call) and ast.unparse(n.func) == "self.rewards.append"]
    store = [n for n in own_nodes(upd.node) if isinstance(n, ast.Assign) and ast.unparse(n.targets[0]) == "self.current_makespan"]
    if len(app) != 1 or len(store) != 1:
        if _makespan_by_cases(ctx, mk, upd, sop):
            return
        raise AnalysisError("MakespanReward.update: append/store not found exactly once")
    val = _strip_cast(ctx, upd, _expand(ctx, upd, app[0].args[0]), "R13.c", app[0])
    if val is None:
        return
    new = store[0].value
    new_e = _expand(ctx, upd, new)
    pos = source_pos(upd.node)
    old_names = {
        t.id for n in own_nodes(upd.node) if isinstance(n, ast.Assign) and ast.unparse(n.value) == "self.current_makespan"
        and pos(n) < pos(store[0]) for t in n.targets if isinstance(t, ast.Name)
    }

    def is_old(e):
        return (isinstance(e, ast.Name) and e.id in old_names) or False

    def is_new(e, at):
        t = ast.unparse(e)
        return t == "self.current_makespan" and at > pos(store[0])

    # new = max(old, sop.end_time)
    if not (isinstance(new_e, ast.Call) and isinstance(new_e.func, ast.Name) and new_e.func.id in ("max", "min") and len(new_e.args) == 2):
        raise AnalysisError(f"MakespanReward.update: new makespan `{ast.unparse(new_e)}` not recognised")
    args = [ast.unparse(a) for a in new_e.args]
    if new_e.func.id == "min":
        chk.violation("R13.c", upd, new_e, "the stored makespan is advanced with min(): it never grows", loc=upd.loc(store[0]))
        return
    olds = [a for a in new_e.args if is_old(a) or ast.unparse(a) == "self.current_makespan"]
    ends = [a for a in args if a == f"{sop}.end_time"]
    if len(olds) != 1 or len(ends) != 1:
        chk.violation(
            "R13.c", upd, new_e,
            f"the stored makespan becomes `{ast.unparse(new_e)}`, not max(previous makespan, end time of the scheduled operation)",
            loc=upd.loc(store[0]),
        )
        return
    if not (isinstance(val, ast.BinOp) and isinstance(val.op, ast.Sub)):
        raise AnalysisError(f"MakespanReward.update: reward `{ast.unparse(val)}` not recognised")
    l, r = val.left, val.right
    # the attribute read before it is advanced is the previous makespan
    before_store = pos(app[0]) < pos(store[0])
    l_old = is_old(l) or (before_store and ast.unparse(l) == "self.current_makespan")
    r_new = is_new(r, pos(app[0])) or ast.unparse(_expand(ctx, upd, r)) == ast.unparse(new_e)
    l_new = is_new(l, pos(app[0])) or ast.unparse(_expand(ctx, upd, l)) == ast.unparse(new_e)
    r_old = is_old(r) or (before_store and ast.unparse(r) == "self.current_makespan")
    if l_old and r_new:
        chk.ok("R13.c", upd.qualname, upd.loc(app[0]), "reward = previous makespan - max(previous, scheduled end)")
    elif l_new and r_old:
        chk.violation("R13.c", upd, val, "the reward is (new makespan - previous makespan): rewards are non-negative and sum to +makespan", loc=upd.loc(app[0]))
    else:
        raise AnalysisError(f"MakespanReward.update: reward `{ast.unparse(val)}` not recognised as a difference of old and new makespan")


def _machine_lists(ctx, cls, fi, e) -> bool:
    """e denotes the schedule's list of machine lists: `<...>.schedule.schedule`,
    directly or through an attribute of the reward that is assigned exactly
    that (whether such an alias survives a reset is R12.f's business)."""
    t = ctx.norm.xtext(fi, e).replace(" ", "")
    if t.endswith("schedule.schedule"):
        return True
    if isinstance(e, ast.Attribute) and isinstance(e.value, ast.Name) and e.value.id == "self":
        from ..lifecycle import Lifecycle

        srcs = [(f, v) for f, v in Lifecycle(ctx).attr_sources(cls, e.attr) if v is not None]
        return bool(srcs) and all(ctx.norm.xtext(f, v).replace(" ", "").endswith("schedule.schedule") for f, v in srcs)
    return False


def _idle_shape(ctx, it):
    chk = ctx.chk
    upd = it.methods.get("update")
    if upd is None:
        raise AnalysisError("IdleTimeReward.update vanished")
    upd = ctx.norm.flat(upd)
    sop = upd.params[1]
    app = [n for n in own_nodes(upd.node) if isinstance(n, ast.Call) and ast.unparse(n.func) == "self.rewards.append"]
    if len(app) != 1:
        raise AnalysisError("IdleTimeReward.update: append not found exactly once")
    val = _strip_cast(ctx, upd, _expand(ctx, upd, app[0].args[0]), "R13.d", app[0])
    if val is None:
        return
    # the previous operation is the one *in front of* the new one in the
    # machine's list; searching the live list by time finds the new operation
    # itself whenever its duration is zero (end == start)
    import re as _re
    from ..lifecycle import Lifecycle

    # update itself (private steps inlined) and the methods it reaches on the
    # same object (a search helper that returns from inside its loop cannot
    # be inlined)
    scope = [(upd, n) for n in own_nodes(upd.node)]
    for f, _via in Lifecycle(ctx).self_closure(it.methods["update"], it):
        if f is not it.methods["update"]:
            scope += [(f, n) for n in own_nodes(f.node)]
    for fsc, n in scope:
        its = []
        if isinstance(n, ast.For):
            its = [(n.iter, [x for x in ast.walk(n) if isinstance(x, ast.If)])]
        elif isinstance(n, (ast.GeneratorExp, ast.ListComp)):
            its = [(g.iter, list(g.ifs)) for g in n.generators]
        for itx, conds in its:
            t = ctx.norm.xtext(fsc, itx).replace(" ", "")
            live = bool(_re.search(r"schedule\.schedule\[\w+\.machine_id\]\)?$", t))
            if live and any("end_time" in ctx.norm.xtext(fsc, c.test if isinstance(c, ast.If) else c) for c in conds):
                chk.violation(
                    "R13.d", fsc, n,
                    "the previous operation is searched by time in the machine's live list, which already contains the "
                    "operation just scheduled: a zero-duration operation (end == start) is found as its own predecessor "
                    "and the idle gap in front of it is rewarded as 0",
                    loc=fsc.loc(n),
                )
                return
    if not (isinstance(val, ast.UnaryOp) and isinstance(val.op, ast.USub)):
        if isinstance(val, ast.Name) or (isinstance(val, ast.BinOp) and isinstance(val.op, ast.Sub)):
            # several definitions (if/else) - look at each
            pass
        else:
            chk.violation("R13.d", upd, val, f"the idle-time reward `{ast.unparse(val)}` is not the negated idle time", loc=upd.loc(app[0]))
            return
    negated = isinstance(val, ast.UnaryOp)
    idle_name = val.operand if negated else val
    defs = []
    if isinstance(idle_name, ast.Name):
        defs = [d[1] for d in ctx.flow.defs(upd).of(idle_name.id) if d[0] == "value"]
    else:
        defs = [idle_name]
    if not defs:
        raise AnalysisError("IdleTimeReward.update: idle time definition not found")
    if not negated:
        # the expression is the reward itself: `a - b` is the negated idle time `b - a`, `-x` that of x
        idle = []
        for d in defs:
            d = _expand(ctx, upd, d)
            if isinstance(d, ast.UnaryOp) and isinstance(d.op, ast.USub):
                idle.append(d.operand)
            elif isinstance(d, ast.BinOp) and isinstance(d.op, ast.Sub):
                idle.append(ast.copy_location(ast.BinOp(left=d.right, op=ast.Sub(), right=d.left), d))
            elif isinstance(d, ast.Constant) and d.value == 0:
                continue
            else:
                idle = None
                break
        if idle:
            defs, negated = idle, True
    ok = True
    saw_gap = False
    for d in defs:
        d = _expand(ctx, upd, d)
        t = ast.unparse(d)
        if ctx.norm.xtext(upd, d) == f"{sop}.start_time":
            continue
        if isinstance(d, ast.BinOp) and isinstance(d.op, ast.Sub) and ctx.norm.xtext(upd, d.left) == f"{sop}.start_time":
            saw_gap = True
            prev = _expand(ctx, upd, d.right)
            if isinstance(prev, ast.IfExp):
                # `<previous end> if <there is a previous operation> else 0`: judge the previous end
                arms = [x for x in (prev.body, prev.orelse) if not (isinstance(x, ast.Constant) and x.value == 0)]
                if len(arms) == 1:
                    prev = _expand(ctx, upd, arms[0])
            if isinstance(prev, ast.Name):
                # `release = 0` when the machine had nothing before, else the previous end: judge the latter
                vs = [v for k_, v, _s in ctx.flow.defs(upd).of(prev.id) if k_ == "value" and not (isinstance(v, ast.Constant) and v.value == 0)]
                if len(vs) == 1:
                    prev = _expand(ctx, upd, vs[0])
            pt = ast.unparse(prev)
            # previous operation: <machine list without the last>[-1].end_time, list indexed by sop.machine_id
            if isinstance(prev, ast.Attribute) and prev.attr == "end_time":
                src = _expand(ctx, upd, prev.value)
                st = ast.unparse(src)
                lst = src
                # machine_schedule[-1] where machine_schedule = schedule[machine_id][:-1]  or schedule[machine_id][-2]
                ok_prev = False
                if isinstance(src, ast.Subscript):
                    base = _expand(ctx, upd, src.value)
                    bt = ast.unparse(base)
                    idx = ast.unparse(src.slice)
                    mid = None
                    if isinstance(base, ast.Subscript) and isinstance(base.slice, ast.Slice) and idx == "-1":
                        # [:-1][-1]
                        up = ast.unparse(base.slice.upper) if base.slice.upper is not None else None
                        inner = _expand(ctx, upd, base.value)
                        if up == "-1" and base.slice.lower is None and isinstance(inner, ast.Subscript):
                            mid = ast.unparse(_expand(ctx, upd, inner.slice))
                            ok_prev = _machine_lists(ctx, it, upd, inner.value)
                    elif idx == "-2" and isinstance(base, ast.Subscript):
                        mid = ast.unparse(_expand(ctx, upd, base.slice))
                        ok_prev = _machine_lists(ctx, it, upd, base.value)
                    if ok_prev and mid != f"{sop}.machine_id":
                        ok = False
                        chk.violation("R13.d", upd, src, f"the previous operation is looked up on machine `{mid}`, not on the machine the operation was scheduled on", loc=upd.loc(app[0]))
                    elif not ok_prev:
                        if idx in ("0", "-1") and "schedule.schedule" in bt:
                            ok = False
                            chk.violation("R13.d", upd, src, f"the gap is measured against element [{idx}] of the machine's list, not the operation before the new one", loc=upd.loc(app[0]))
                        else:
                            raise AnalysisError(f"IdleTimeReward.update: previous-operation lookup `{st}` not recognised")
                else:
                    raise AnalysisError(f"IdleTimeReward.update: previous operation `{st}` not recognised")
            elif (
                isinstance(prev, ast.Call) and isinstance(prev.func, ast.Name) and prev.func.id in ("max", "min") and prev.args
                and isinstance(prev.args[0], (ast.GeneratorExp, ast.ListComp)) and len(prev.args[0].generators) == 1
            ):
                # an aggregate over the machine's list: the list must exclude
                # the operation that was just appended (it is the last element)
                g = prev.args[0].generators[0]
                it = ctx.norm.xtext(upd, g.iter).replace(" ", "")
                if it.endswith(f"schedule.schedule[{sop}.machine_id]"):
                    ok = False
                    chk.violation(
                        "R13.d", upd, prev,
                        f"the end of the previous operation is taken as `{ast.unparse(prev)[:80]}` over the machine's live list, "
                        "which already contains the operation just scheduled: a zero-duration operation (end == start) is its "
                        "own predecessor and the idle gap in front of it is rewarded as 0",
                        loc=upd.loc(app[0]),
                    )
                else:
                    raise AnalysisError(f"IdleTimeReward.update: idle reference `{pt}` not recognised")
            else:
                # a release-time table kept by the reward itself
                if isinstance(prev, ast.Subscript) and ast.unparse(prev.value).startswith("self."):
                    idx = ast.unparse(_expand(ctx, upd, prev.slice))
                    if idx != f"{sop}.machine_id":
                        ok = False
                        chk.violation("R13.d", upd, prev, f"the machine's release time is read at `{idx}`, not at the scheduled machine", loc=upd.loc(app[0]))
                else:
                    raise AnalysisError(f"IdleTimeReward.update: idle reference `{pt}` not recognised")
        elif isinstance(d, ast.BinOp) and isinstance(d.op, ast.Sub) and ctx.norm.xtext(upd, d.right) == f"{sop}.start_time":
            ok = False
            chk.violation("R13.d", upd, d, "idle time is (previous end - start): the reward is positive", loc=upd.loc(app[0]))
        else:
            raise AnalysisError(f"IdleTimeReward.update: idle time `{t}` not recognised")
    if negated and ok and saw_gap:
        chk.ok("R13.d", upd.qualname, upd.loc(app[0]), "reward = -(start - end of previous operation on the scheduled machine)")
    elif not negated and ok:
        chk.violation("R13.d", upd, val, "the idle-time reward is not negated: rewards are non-negative", loc=upd.loc(app[0]))
