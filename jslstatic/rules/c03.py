"""C03 - CP-SAT solver (structural clauses).

R03.a  per-solve re-creation: every attribute of the solver object that a
       ``solve`` path uses as mutable state (method calls on it, stores into
       it) is rebound on that path before its first use, so a result cannot
       depend on what the same object solved before.
R03.b  model completeness: every path from ``solve`` entry to the solver's
       ``Solve`` call creates start/end variables for every operation with
       ``end == start + duration``, adds job precedence ``end(prev) <=
       start(next)`` for consecutive positions, one no-overlap per machine
       over all of that machine's intervals, the max-equality of the makespan
       over all end variables, and minimises the makespan.
R03.c  status discipline: NoSolutionFoundError is raised exactly when the
       status is neither OPTIMAL nor FEASIBLE; the literal "optimal" is
       reported only under ``status == OPTIMAL``; the reported makespan is
       the solver's value of the objective variable.
R03.d  rebuild order agrees with the validator: the per-machine sequences
       handed to ``Schedule(schedule=...)`` are sorted by a key under which
       any sequence accepted by ``check_schedule`` (prev.end <= next.start)
       is reproduced: start time first, end time (or duration) second.
R03.e  no function of these modules modifies the object of a mutable default
       argument (directly, through a local alias, or with ``+=``): the result
       of a call must not depend on earlier calls.
R03.f  no for-loop variable of these modules is read after its loop (a statement
       left one indentation level too shallow sees only the last element).
R03.g  no container attribute that the solver updates in place is handed to a
       callee that stores it uncopied (the metadata of a schedule returned
       earlier must not change with later solves).
R03.h  variable domains are [0, total duration] and the only linear constraints
       are the two prescribed ones; any other model is refused (exit 2):
       whether it still contains the optimum is not decided.
"""

from __future__ import annotations

import ast

from ..repo import AnalysisError, own_nodes, dotted
from .common import key_lambda, resolve_root, source_pos

MANIFEST = {
    "text": (
        "Decides the structural clauses of C03: on every solve path the model, "
        "the solver, the variable table and the objective variable are rebound "
        "before first use (independence from earlier solves); every path to "
        "Solve() has built the complete model - variables with end = start + "
        "duration for every operation, consecutive-position precedence, "
        "per-machine no-overlap over all intervals, makespan = max of all ends, "
        "Minimize(makespan); the no-solution error is raised exactly on "
        "non-OPTIMAL/FEASIBLE status, 'optimal' only under OPTIMAL, and the "
        "reported makespan is the objective's value; the schedule rebuild sorts "
        "by (start, end), which reproduces every sequence the validator "
        "accepts, zero durations included. Not decided: feasibility/optimality "
        "of the values the solver returns, bounds."
        " Also decided: no function of these modules accumulates into a mutable default argument."
        " Also decided: no for-loop variable of these modules is read after its loop (statement left one indentation level too shallow)."
        " Also decided: no dict/list the solver updates in place across solves is stored uncopied in a returned schedule; variable domains are [0, total duration] with no extra linear constraints (other models are refused, not passed)."
    ),
    "note": "OR-Tools' CamelCase and snake_case spellings are both recognised. The solver's own correctness is trusted.",
    "technique": "path automaton (rebind-before-use, must-call-before-Solve) + constraint-shape matching + sort-key vs validator-relation agreement",
    "ref": "DESIGN.md §3 C03",
}
UNDECIDED = [
    "feasibility and optimality of the returned values against an independent optimum / lower bounds (the solver's numerical output)",
]
ASSUMPTIONS = ["OR-Tools CP-SAT is correct; NoOverlap treats zero-size intervals as documented (a sequence with end_i <= start_{i+1} exists)"]

SP = {
    "NewIntVar": "new_int_var", "Add": "add", "AddNoOverlap": "add_no_overlap", "AddMaxEquality": "add_max_equality",
    "Minimize": "minimize", "NewIntervalVar": "new_interval_var", "Solve": "solve", "Value": "value",
}
CANON = {**{k: k for k in SP}, **{v: k for k, v in SP.items()}}


def canon(name):
    return CANON.get(name)


def _rel(e):
    if e.kind in ("raise",):
        return True
    if e.kind == "write" and not e.data.get("local"):
        return True
    return e.kind == "call" and canon(e.data.get("attr")) is not None


def _is_configuration(ctx, cls, attr: str) -> bool:
    """``self.<attr>`` is a setting: written only by the constructor, from its
    own parameters / literals (at most copied with dict()/list()/...).  An
    object the constructor *creates* (a CpSolver, a model) is state, not a
    setting - reusing it across solves is exactly what R03.a is about."""
    from ..lifecycle import Lifecycle

    srcs = Lifecycle(ctx).attr_sources(cls, attr)
    init = cls.methods.get("__init__")
    if not srcs or init is None:
        return False
    params = set(init.params[1:])
    for f, v in srcs:
        if f is not init or v is None:
            return False
        # it must come from a constructor argument (or be an immutable literal):
        # an empty dict / list created in __init__ is a container to be filled
        uses_param = any(isinstance(n, ast.Name) and n.id in params for n in ast.walk(v))
        immutable = isinstance(v, ast.Constant)
        if not (uses_param or immutable):
            return False
        for n in ast.walk(v):
            if isinstance(n, ast.Name) and n.id not in params and n.id not in ("None", "True", "False", "dict", "list", "tuple", "set", "frozenset", "int", "float", "bool", "str"):
                return False
            if isinstance(n, ast.Call) and not (isinstance(n.func, ast.Name) and n.func.id in ("dict", "list", "tuple", "set", "frozenset", "int", "float", "bool", "str")):
                return False
            if isinstance(n, (ast.Attribute, ast.Lambda)):
                return False
    return True


def run(ctx):
    chk, repo = ctx.chk, ctx.repo
    from .common import check_loop_variable_leaks

    check_loop_variable_leaks(ctx, "R03.f", ("job_shop_lib.constraint_programming",), "the CP-SAT solver")
    from .common import check_mutable_defaults

    check_mutable_defaults(ctx, "R03.e", ("job_shop_lib.constraint_programming",), "the CP-SAT solver")
    for rid, txt in (
        ("R03.a", "model / solver / variable table / objective variable are rebound on every solve path before first use"),
        ("R03.b", "every path to Solve() built the complete model (variables, end=start+duration, job precedence, per-machine no-overlap, max-equality, Minimize)"),
        ("R03.c", "NoSolutionFoundError exactly on status not in {OPTIMAL, FEASIBLE}; 'optimal' only under OPTIMAL; makespan = Value(objective)"),
        ("R03.d", "rebuild sort key is (start_time, end_time|duration): reproduces every sequence check_schedule accepts"),
    ):
        chk.rule(rid, txt)
    cls = repo.find_class("ORToolsSolver")
    solve = cls.methods.get("solve")
    if solve is None:
        raise AnalysisError("ORToolsSolver.solve vanished")
    from .common import check_state_escape

    chk.rule("R03.g", "no container the solver updates in place across solves is stored, uncopied, in a returned schedule (metadata of an earlier result must not change)")
    ctx.attempt(check_state_escape, ctx, "R03.g", cls, "the metadata / data of a schedule returned earlier")
    ctx.attempt(_find_roles, ctx, solve)
    chk.analysed["solver_state_roles"] = dict(ROLE)
    eng = ctx.engine(relevant=_rel, max_depth=5, unroll=1, budget=120000)
    paths = eng.paths(solve, cls)
    if not any(e.kind == "call" and canon(e.data.get("attr")) == "Solve" for p in paths for e in p.events):
        # Solve() handed to a wrapper as a value (`self._timed(self.solver.Solve, self.model)`): the written-out
        # solve has the call in plain sight
        try:
            solve_f = ctx.norm.flat(solve, depth=4)
            paths_f = eng.paths(solve_f, cls)
            if any(e.kind == "call" and canon(e.data.get("attr")) == "Solve" for p in paths_f for e in p.events):
                solve, paths = solve_f, paths_f
        except AnalysisError:
            pass
    chk.analysed["solve_paths"] = len(paths)

    # ---------------------------------------------------------------- R03.a
    bad = False
    used_attrs = set()
    for p in paths:
        first: dict[str, tuple] = {}
        for ev in p.events:
            attr = None
            kind = None
            if ev.kind == "write" and not ev.data.get("local"):
                root, chain, fr = resolve_root(ev)
                if fr is not None and fr.parent is None and root == "self" and chain:
                    attr = chain[0]
                    kind = "rebind" if (len(chain) == 1 and ev.data.get("op") == "assign") else "use"
            elif ev.kind == "call" and ev.data.get("recv") is not None and not ev.data.get("property"):
                from ..paths import chain_of

                r, c = chain_of(ev.data["recv"])
                root, chain, fr = resolve_root(ev, r, c)
                if fr is not None and fr.parent is None and root == "self" and chain and not chain[0].endswith("()"):
                    if ctx.repo.method(cls, chain[0]) is None:
                        attr, kind = chain[0], "use"
            if attr is None:
                continue
            used_attrs.add(attr)
            if attr not in first:
                first[attr] = (kind, ev)
        for attr, (kind, ev) in first.items():
            if kind == "use" and attr not in ("max_time_in_seconds", "log_search_progress") and not _is_configuration(ctx, cls, attr):
                bad = True
                chk.violation(
                    "R03.a", solve, ev.node,
                    f"a solve path uses `self.{attr}` ({ev.data.get('text')}) before rebinding it: the object "
                    "created for a previous solve (its variables and constraints, or its stale table) is reused, "
                    "so the result depends on what this solver solved before",
                    loc=ev.loc, path=p.describe(),
                )
                break
        if bad:
            break
    need = {"model", "solver", ROLE["table"], ROLE["makespan"]}
    if not bad:
        if not need <= used_attrs:
            raise AnalysisError(f"solver state attributes not all seen on solve paths: {sorted(used_attrs)}")
        chk.ok("R03.a", solve.qualname, solve.loc(), f"{sorted(need)} rebound before first use on {len(paths)} paths")

    # ---------------------------------------------------------------- R03.b
    want = ["NewIntVar", "Add", "AddNoOverlap", "AddMaxEquality", "Minimize", "NewIntervalVar"]
    n_solve = 0
    bad = False
    for p in paths:
        idx = next((i for i, e in enumerate(p.events) if e.kind == "call" and canon(e.data.get("attr")) == "Solve"), None)
        if idx is None:
            continue
        n_solve += 1
        before = {canon(e.data.get("attr")) for e in p.events[:idx] if e.kind == "call"}
        # loops may legitimately run zero times on an enumerated path; the
        # call must be *reachable* before Solve: checked over all paths below
    reach = set()
    for p in paths:
        idx = next((i for i, e in enumerate(p.events) if e.kind == "call" and canon(e.data.get("attr")) == "Solve"), None)
        if idx is None:
            continue
        reach |= {canon(e.data.get("attr")) for e in p.events[:idx] if e.kind == "call"}
        late = [e for e in p.events[idx + 1:] if e.kind == "call" and canon(e.data.get("attr")) in want]
        if late:
            bad = True
            chk.violation("R03.b", solve, late[0].node, f"`{late[0].data.get('text')}` is added to the model after Solve() was called", loc=late[0].loc)
            break
    if n_solve == 0:
        raise AnalysisError("no path of solve reaches Solve()")
    for w in want:
        if w not in reach and not bad:
            bad = True
            what = {
                "NewIntVar": "start/end variables", "Add": "linear constraints (end = start + duration, job precedence)",
                "AddNoOverlap": "the per-machine no-overlap constraint", "AddMaxEquality": "makespan = max of all end times",
                "Minimize": "the objective Minimize(makespan)", "NewIntervalVar": "interval variables",
            }[w]
            chk.violation("R03.b", solve, None, f"no path reaches Solve() after creating {what} ({w}/{SP[w]} is never called before solving)")
    if not bad:
        chk.ok("R03.b", solve.qualname, solve.loc(), f"{n_solve} paths to Solve(): all model-building calls precede it")
    ctx.attempt(_shapes, ctx, cls)
    ctx.attempt(_domains, ctx, cls)
    # integer model data must not pass through the float32 views of the instance
    Fl = ctx.norm.flat(solve, depth=3)
    lossy = [
        n for n in own_nodes(Fl.node)
        if isinstance(n, ast.Attribute) and n.attr in ("durations_matrix_array", "machines_matrix_array")
        # reading only the shape of the view loses nothing
        and not (isinstance(Fl.module.parents.get(n), ast.Attribute) and Fl.module.parents.get(n).attr in ("shape", "ndim", "size"))
    ]
    for n in lossy[:1]:
        chk.violation(
            "R03.b", Fl, n,
            f"the model is built from instance.{n.attr}, a float32 view: sums of durations at or above 2**24 are "
            "rounded, so bounds/constraints derived from it are off by a few units and the solver proves "
            "'optimal' for a wrong (over- or under-constrained) model",
            loc=Fl.loc(n),
        )

    # ---------------------------------------------------------------- R03.c
    ctx.attempt(_status, ctx, cls, solve)

    # ---------------------------------------------------------------- R03.d
    ctx.attempt(_rebuild, ctx, cls)


def _domains(ctx, cls):
    """R03.h - the model admits every feasible schedule: variable domains are
    [0, H] with H the total duration (a schedule without idle gaps longer than
    needed never exceeds it), and the only linear constraints are the two the
    formulation prescribes.  Any narrower domain or further constraint can cut
    off the optimum while CP-SAT still answers OPTIMAL; whether it does is
    arithmetic this analysis does not do, so such models are refused."""
    chk = ctx.chk
    chk.rule("R03.h", "variable domains are [0, total duration] and no linear constraint beyond end = start + duration and job precedence is added (nothing can cut off the optimum)")
    solve = cls.methods["solve"]
    F = ctx.norm.flat(solve, depth=6)
    ivs = _calls(F, "NewIntVar")
    if not ivs:
        raise AnalysisError("no NewIntVar call in the flattened solve")
    for c in ivs:
        if len(c.args) < 2:
            raise AnalysisError(f"{F.loc(c)}: NewIntVar bounds not positional")
        lo, hi = c.args[0], c.args[1]
        lo_t, hi_t = ctx.norm.xtext(F, lo).replace(" ", ""), ctx.norm.xtext(F, hi).replace(" ", "")
        if hi_t.startswith("self.") and hi_t[5:].isidentifier():
            # a bound kept on the solver for the duration of one solve (`self._horizon = instance.total_duration`):
            # the one value the written-out solve stores there
            sto = [
                x for x in own_nodes(F.node)
                if isinstance(x, ast.Assign) and len(x.targets) == 1 and ast.unparse(x.targets[0]) == hi_t
            ]
            if len(sto) == 1:
                hi_t = ctx.norm.xtext(F, sto[0].value).replace(" ", "")
        lo_ok = lo_t == "0"
        hi_ok = hi_t.endswith(".total_duration") and not any(ch in hi_t for ch in "-/(")
        if not (lo_ok and hi_ok):
            raise AnalysisError(
                f"{F.loc(c)}: variable domain [{lo_t[:50]}, {hi_t[:60]}] is not [0, instance.total_duration]: whether it still "
                "contains an optimal schedule is not decided"
            )
    n_add = 0
    for c in _calls(F, "Add"):
        a = c.args[0] if c.args else None
        n_add += 1
        known = isinstance(a, ast.Compare) and len(a.ops) == 1 and (
            isinstance(a.ops[0], ast.Eq) and "duration" in ctx.norm.xtext(F, a)
            or isinstance(a.ops[0], (ast.LtE, ast.GtE)) and _sym_var(ctx, F, a.left) is not None and _sym_var(ctx, F, a.comparators[0]) is not None
        )
        if not known:
            raise AnalysisError(f"{F.loc(c)}: linear constraint `{ast.unparse(a)[:80] if a is not None else '?'}` is not one of the formulation's: whether it cuts off the optimum is not decided")
    chk.ok("R03.h", solve.qualname, F.loc(ivs[0]), f"{len(ivs)} NewIntVar sites with domain [0, total_duration]; {n_add} Add sites, all of the two prescribed shapes")


def _calls(fi, name):
    return [
        n for n in own_nodes(fi.node)
        if isinstance(n, ast.Call) and isinstance(n.func, ast.Attribute) and canon(n.func.attr) == name
    ]


def _loops_of(F, node):
    fors = []
    cur = F.module.parents.get(node)
    while cur is not None and cur is not F.node:
        if isinstance(cur, (ast.For, ast.ListComp, ast.GeneratorExp)):
            fors.append(cur)
        cur = F.module.parents.get(cur)
    return fors


def _iter_text(ctx, F, lp):
    it = lp.iter if isinstance(lp, ast.For) else lp.generators[0].iter
    return ctx.norm.xtext(F, it).replace(" ", "")


def _over_all_operations(ctx, F, node):
    """node sits inside `for job in instance.jobs: for operation in job`."""
    its = [_iter_text(ctx, F, lp) for lp in _loops_of(F, node)]
    # `enumerate(instance.jobs)` is the same walk with an index
    its = [t[len("enumerate("):-1] if t.startswith("enumerate(") and t.endswith(")") and "," not in t else t for t in its]
    return any(t.endswith("instance.jobs") for t in its) and not any(
        isinstance(x, (ast.Break, ast.Continue)) for lp in _loops_of(F, node) if isinstance(lp, ast.For) for x in ast.walk(lp)
    )


ROLE = {"table": "_operations_start", "makespan": "_makespan"}


def _builds_int_vars(ctx, F, value, _depth=0):
    """The value (through any definition of the names in it) contains a NewIntVar call."""
    defs = ctx.flow.defs(F)
    seen, work = set(), [value]
    while work:
        cur = work.pop()
        for x in ast.walk(cur):
            if isinstance(x, ast.Call) and isinstance(x.func, ast.Attribute) and canon(x.func.attr) == "NewIntVar":
                return True
            if isinstance(x, ast.Name) and x.id not in seen:
                seen.add(x.id)
                work += [d[1] for d in defs.of(x.id) if d[0] == "value" and d[1] is not None]
    return False


def _is_objective_var(ctx, F, e) -> bool:
    """``e`` denotes the objective variable: the role attribute itself, a local
    read from it, or the once-bound local whose value is stored in it."""
    if e is None:
        return False
    mk = "self." + ROLE["makespan"]
    if ast.unparse(e) == mk or ctx.norm.xtext(F, e) == mk:
        return True
    if isinstance(e, ast.Name) and len(ctx.flow.defs(F).of(e.id)) == 1:
        for n in own_nodes(F.node):
            if (
                isinstance(n, ast.Assign) and len(n.targets) == 1 and ast.unparse(n.targets[0]) == mk
                and isinstance(n.value, ast.Name) and n.value.id == e.id
            ):
                return True
    return False


def _find_roles(ctx, solve):
    """The attribute names playing the two roles, found by shape (so a rename
    of the private attributes is not an analysis error):
    table    - self.X[<operation>] = (<start var>, <end var>) / a record of both
    makespan - self.Y = <model>.NewIntVar(...) handed to AddMaxEquality"""
    F = ctx.norm.flat(solve, depth=6)
    table = mk = None
    for n in own_nodes(F.node):
        if isinstance(n, ast.Assign) and len(n.targets) == 1:
            t = n.targets[0]
            if isinstance(t, ast.Subscript) and table is None and _builds_int_vars(ctx, F, n.value):
                # the table itself or a local alias of it (tbl = self.X; tbl[op] = ...)
                base = t.value if isinstance(t.value, ast.Attribute) else ctx.norm.xexpr(F, t.value)
                if isinstance(base, ast.Attribute) and isinstance(base.value, ast.Name) and base.value.id == "self":
                    table = base.attr
            if isinstance(t, ast.Attribute) and isinstance(t.value, ast.Name) and t.value.id == "self":
                v = n.value if isinstance(n.value, ast.Call) else ctx.norm.xexpr(F, n.value)
                if isinstance(v, ast.Call) and isinstance(v.func, ast.Attribute) and canon(v.func.attr) == "NewIntVar":
                    mk = t.attr
    if table is None or mk is None:
        raise AnalysisError(f"ORToolsSolver: variable table / objective variable attributes not recognised (table={table}, makespan={mk})")
    ROLE["table"], ROLE["makespan"] = table, mk


def _sym_var(ctx, F, e):
    """('start'|'end', key expression) for an expression denoting a CP variable
    taken from self._operations_start[key]."""
    x = ctx.norm.xexpr(F, e)
    if isinstance(x, ast.Subscript) and isinstance(x.slice, ast.Constant) and x.slice.value in (0, 1):
        base = x.value
        if isinstance(base, ast.Subscript) and ast.unparse(base.value) == "self." + ROLE["table"]:
            return ("start" if x.slice.value == 0 else "end"), base.slice
    # named fields (NamedTuple / dataclass): .start / .end, .start_var / .end_var
    if isinstance(x, ast.Attribute) and isinstance(x.value, ast.Subscript) and ast.unparse(x.value.value) == "self." + ROLE["table"]:
        a = x.attr.lower()
        if a.startswith("start"):
            return "start", x.value.slice
        if a.startswith("end"):
            return "end", x.value.slice
    return None


def _position_of(ctx, F, key):
    """(list text, base, offset) of an operation key such as job[position - 1]
    or a loop variable of zip(job, job[1:])."""
    if isinstance(key, ast.Subscript) and not isinstance(key.slice, ast.Slice):
        lst = ast.unparse(key.value)
        idx = key.slice
        if isinstance(idx, ast.Name):
            return lst, idx.id, 0
        if isinstance(idx, ast.BinOp) and isinstance(idx.left, ast.Name) and isinstance(idx.right, ast.Constant) and isinstance(idx.right.value, int):
            off = idx.right.value if isinstance(idx.op, ast.Add) else -idx.right.value if isinstance(idx.op, ast.Sub) else None
            if off is not None:
                return lst, idx.left.id, off
        return None
    if isinstance(key, ast.Name):
        for kind, value, stmt in ctx.flow.defs(F).of(key.id):
            if kind != "elem":
                continue
            it = stmt.iter if isinstance(stmt, ast.For) else getattr(stmt, "iter", None)
            if it is None:
                continue
            t = ast.unparse(it).replace(" ", "")
            v = ast.unparse(value).replace(" ", "")
            if isinstance(it, ast.Call) and (ast.unparse(it.func) in ("zip",)) and len(it.args) == 2:
                a0, a1 = (ast.unparse(a).replace(" ", "") for a in it.args)
                if a1 == a0 + "[1:]":
                    return a0, "#pairs", 0 if v == a0 else 1
            if isinstance(it, ast.Call) and ast.unparse(it.func) in ("itertools.pairwise", "pairwise") and it.args:
                # Defs maps both targets to the call; position from the target tuple
                tg = stmt.target
                if isinstance(tg, ast.Tuple) and len(tg.elts) == 2:
                    a0 = ast.unparse(it.args[0]).replace(" ", "")
                    return a0, "#pairs", 0 if ast.unparse(tg.elts[0]) == key.id else 1
    return None


def _shapes(ctx, cls):
    chk = ctx.chk
    solve = cls.methods["solve"]
    F = ctx.norm.flat(solve, depth=6)
    found = {"enddef": [], "prec": [], "nool": [], "maxeq": [], "minim": []}
    for c in _calls(F, "Add"):
        a = c.args[0] if c.args else None
        if isinstance(a, ast.Compare) and len(a.ops) == 1:
            if isinstance(a.ops[0], ast.Eq) and "duration" in ctx.norm.xtext(F, a):
                found["enddef"].append((c, a))
            elif isinstance(a.ops[0], (ast.LtE, ast.GtE, ast.Lt, ast.Gt)):
                found["prec"].append((c, a))
    for k, nm in (("nool", "AddNoOverlap"), ("maxeq", "AddMaxEquality"), ("minim", "Minimize")):
        found[k] = [(c, None) for c in _calls(F, nm)]
    miss = [k for k, v in found.items() if not v]
    if miss:
        if not any(i["rule"] == "R03.b" and i["verdict"] != "holds" for i in chk.instances):
            raise AnalysisError(f"constraint shapes not found: {miss}")
        return
    # ---- end == start + duration for every operation
    c, a = found["enddef"][0]
    ok = False
    for x, y in ((a.left, a.comparators[0]), (a.comparators[0], a.left)):
        if isinstance(y, ast.BinOp) and isinstance(y.op, ast.Add):
            parts = [ast.unparse(y.left), ast.unparse(y.right)]
            if any(p.endswith(".duration") for p in parts) and not isinstance(x, ast.BinOp):
                ok = True
    if not ok:
        chk.violation("R03.b", F, c, f"the end-time definition is `{ast.unparse(a)}`, not end == start + duration", loc=F.loc(c))
    elif not _over_all_operations(ctx, F, c):
        chk.violation("R03.b", F, c, "start/end variables are not created for every operation of every job", loc=F.loc(c))
    else:
        chk.ok("R03.b", solve.qualname, F.loc(c), "end == start + duration for every operation of every job")
    # ---- job precedence
    c, a = found["prec"][0]
    l, r = _sym_var(ctx, F, a.left), _sym_var(ctx, F, a.comparators[0])
    if l is None or r is None:
        raise AnalysisError(f"{F.loc(c)}: precedence constraint operands not recognised ({ast.unparse(a)[:80]})")
    if isinstance(a.ops[0], (ast.GtE, ast.Gt)):
        l, r = r, l
    strict = isinstance(a.ops[0], (ast.Lt, ast.Gt))
    pl, pr = _position_of(ctx, F, l[1]), _position_of(ctx, F, r[1])
    if pl is None or pr is None:
        raise AnalysisError(f"{F.loc(c)}: operations of the precedence constraint not recognised")
    shape_ok = l[0] == "end" and r[0] == "start" and pl[0] == pr[0] and pl[1] == pr[1] and pr[2] == pl[2] + 1 and not strict
    if not shape_ok:
        chk.violation(
            "R03.b", F, c,
            f"the job-precedence constraint is `{ctx.norm.xtext(F, a)[:120]}`: it does not state "
            "end(operation at position i) <= start(operation at position i+1)",
            loc=F.loc(c),
        )
    else:
        # coverage: all consecutive pairs of every job
        lps = _loops_of(F, c)
        its = [_iter_text(ctx, F, lp) for lp in lps]
        lst = pl[0]
        cover = False
        if pl[1] == "#pairs":
            cover = True
        else:
            lo, hi = pl[2], pr[2]
            want = {f"range({-lo},len({lst}){'-' + str(hi) if hi > 0 else ''})"}
            if lo == 0:
                want.add(f"range(len({lst})-{hi})")
            cover = bool(its) and its[0] in want
        all_jobs = any(t.endswith("instance.jobs") for t in its)
        if cover and all_jobs:
            chk.ok("R03.b", solve.qualname, F.loc(c), "end(i) <= start(i+1) for every consecutive pair of every job")
        else:
            chk.violation(
                "R03.b", F, c,
                f"job precedence is added over `{its[0] if its else '?'}`, not for every consecutive pair of "
                "positions of every job: some successors may start before their predecessor ends",
                loc=F.loc(c),
            )
    # ---- one no-overlap per machine over all intervals of that machine
    c, _ = found["nool"][0]
    _no_overlap(ctx, F, solve, c)
    ivs = _calls(F, "NewIntervalVar")
    odd = [
        n for n in own_nodes(F.node)
        if isinstance(n, ast.Call) and isinstance(n.func, ast.Attribute)
        and n.func.attr in ("NewFixedSizeIntervalVar", "new_fixed_size_interval_var", "NewOptionalIntervalVar",
                            "new_optional_interval_var", "NewOptionalFixedSizeIntervalVar", "new_optional_fixed_size_interval_var")
    ]
    for n in odd:
        sz = ast.unparse(n.args[1]) if len(n.args) > 1 else "?"
        if "ptional" in n.func.attr:
            chk.violation("R03.b", F, n, "an optional interval is used: an operation may be left out of its machine's no-overlap constraint", loc=F.loc(n))
        elif not sz.endswith("duration"):
            chk.violation(
                "R03.b", F, n,
                f"an interval of fixed size `{sz}` (not the operation's duration) enters the no-overlap constraint: the "
                "model is over- or under-constrained and the reported optimum is not the instance's optimum",
                loc=F.loc(n),
            )
    for c2 in ivs:
        if len(c2.args) >= 3:
            a0, a1, a2 = (ast.unparse(x) for x in c2.args[:3])
            # positional roles are (start, size, end).  The provenance of the
            # three values runs through a table of tuples and is not traced;
            # what can be told from the spelling alone is a *recognisable*
            # swap - arbitrary names say nothing and are accepted
            swapped = ("end" in a0.lower() and "start" not in a0.lower()) or ("start" in a2.lower() and "end" not in a2.lower()) or (
                "duration" in a0.lower() or "duration" in a2.lower())
            if swapped:
                chk.violation("R03.b", F, c2, f"interval variable built as ({a0}, {a1}, {a2}), expected (start, duration, end)", loc=F.loc(c2))
    # ---- makespan = max of all ends, minimise it
    c, _ = found["maxeq"][0]
    src = ctx.norm.xexpr(F, c.args[1]) if len(c.args) > 1 else None
    ok = False
    if c.args and _is_objective_var(ctx, F, c.args[0]) and isinstance(src, (ast.ListComp, ast.GeneratorExp)) and len(src.generators) == 1:
        g = src.generators[0]
        it = ast.unparse(g.iter)
        if it in (f"self.{ROLE['table']}.values()",) and not g.ifs:
            tgt = g.target
            if isinstance(tgt, ast.Tuple) and len(tgt.elts) == 2 and isinstance(src.elt, ast.Name) and ast.unparse(tgt.elts[1]) == src.elt.id:
                ok = True
            elif isinstance(src.elt, ast.Subscript) and ast.unparse(src.elt.slice) == "1":
                ok = True
            elif isinstance(src.elt, ast.Attribute) and isinstance(tgt, ast.Name) and ast.unparse(src.elt.value) == tgt.id and src.elt.attr.lower().startswith("end"):
                ok = True
        elif it == f"self.{ROLE['table']}.items()" and not g.ifs:
            e = ast.unparse(src.elt)
            if e.endswith("[1]") or (isinstance(g.target, ast.Tuple) and isinstance(g.target.elts[1], ast.Tuple) and ast.unparse(g.target.elts[1].elts[1]) == e):
                ok = True
    if not ok and c.args and _is_objective_var(ctx, F, c.args[0]) and isinstance(src, (ast.ListComp, ast.GeneratorExp)) and len(src.generators) == 1:
        # the end variable of the last operation of every job: within a job the precedence constraints (checked
        # above: every consecutive pair) make the last operation end last, so this is the same maximum
        g = src.generators[0]
        jv = g.target.id if isinstance(g.target, ast.Name) else None
        e = src.elt
        if (
            jv is not None and ast.unparse(g.iter).endswith("instance.jobs")
            and all(ast.unparse(t_) in (jv, f"len({jv}) > 0", f"{jv} != []") for t_ in g.ifs)
            and isinstance(e, ast.Subscript) and ast.unparse(e.slice) == "1" and isinstance(e.value, ast.Subscript)
            and ast.unparse(e.value.value) == f"self.{ROLE['table']}" and ast.unparse(e.value.slice) == f"{jv}[-1]"
            and found["prec"]
        ):
            ok = True
    if ok:
        chk.ok("R03.b", solve.qualname, F.loc(c), "makespan == max over the end variables of all operations")
    else:
        chk.violation(
            "R03.b", F, c,
            f"the makespan is tied to `{ast.unparse(src)[:100] if src is not None else '?'}`, not to the end variables of all "
            "operations: the reported optimum is not the schedule's makespan",
            loc=F.loc(c),
        )
    c, _ = found["minim"][0]
    if c.args and _is_objective_var(ctx, F, c.args[0]):
        chk.ok("R03.b", solve.qualname, F.loc(c), "Minimize(makespan)")
    else:
        chk.violation("R03.b", F, c, f"the objective is `{ast.unparse(c)}`, not Minimize(self.{ROLE['makespan']})", loc=F.loc(c))
    if any(isinstance(n, ast.Call) and isinstance(n.func, ast.Attribute) and n.func.attr in ("Maximize", "maximize") for n in own_nodes(F.node)):
        chk.violation("R03.b", F, c, "the model maximises an objective")


def _no_overlap(ctx, F, solve, c):
    """AddNoOverlap(X) once per machine; X = all intervals of that machine;
    the per-machine table filled from every operation by its machine id."""
    chk = ctx.chk
    arg = c.args[0] if c.args else None
    loops = [lp for lp in _loops_of(F, c) if isinstance(lp, ast.For)]
    bad = lambda why: chk.violation(  # noqa: E731
        "R03.b", F, c,
        "the no-overlap constraint is not added once per machine over all of that machine's operations "
        f"(operations on one machine may overlap in the solution): {why}",
        loc=F.loc(c),
    )
    if not loops:
        return bad("AddNoOverlap is not inside a per-machine loop")
    mloop = loops[0]
    if any(isinstance(x, (ast.If, ast.Break, ast.Continue)) for x in ast.walk(mloop) if x is not mloop and isinstance(x, (ast.If, ast.Break, ast.Continue))):
        # conditionals inside the per-machine loop (other than in nested helper inlines) may skip intervals
        conds = [x for x in ast.walk(mloop) if isinstance(x, (ast.If, ast.Break, ast.Continue))]
        # not adding the constraint for a machine with fewer than two intervals
        # changes nothing (no-overlap over 0 or 1 intervals is vacuous)
        atxt = ctx.norm.xtext(F, arg).replace(" ", "") if arg is not None else None
        raw = ast.unparse(arg).replace(" ", "") if arg is not None else None
        harmless = set()
        for x in conds:
            if not isinstance(x, ast.If) or x.orelse:
                continue
            t = ast.unparse(x.test).replace(" ", "")
            tx = ctx.norm.xtext(F, x.test).replace(" ", "")
            for a in {atxt, raw} - {None}:
                enough = {f"len({a})>=2", f"len({a})>1", f"2<=len({a})", f"1<len({a})"}
                few = {f"len({a})<2", f"len({a})<=1", f"2>len({a})", f"1>=len({a})"}
                if (t in enough or tx in enough) and any(y is c for y in ast.walk(x)):
                    harmless.add(id(x))
                if (t in few or tx in few) and len(x.body) == 1 and isinstance(x.body[0], ast.Continue):
                    harmless |= {id(x), id(x.body[0])}
        conds = [x for x in conds if id(x) not in harmless]
        if conds:
            return bad("conditional statements inside the per-machine loop")
    it = mloop.iter
    table = it.args[0] if isinstance(it, ast.Call) and ast.unparse(it.func) == "enumerate" and it.args else it
    if not isinstance(table, ast.Name):
        return bad(f"per-machine loop iterates `{ast.unparse(it)}`")
    tname = table.id
    for _ in range(4):  # plain aliases of the table (e.g. the result of an inlined helper)
        ds = [d for d in ctx.flow.defs(F).of(tname) if d[0] == "value"]
        if len(ds) == 1 and isinstance(ds[0][1], ast.Name):
            tname = ds[0][1].id
        else:
            break
    # element variable of the per-machine loop
    tg = mloop.target
    elem = tg.elts[1] if isinstance(tg, ast.Tuple) and isinstance(it, ast.Call) and ast.unparse(it.func) == "enumerate" else tg
    if not isinstance(elem, ast.Name):
        return bad("per-machine element not a simple name")
    ename = elem.id
    # X covers all entries of the element
    x = arg
    full = False
    if isinstance(x, ast.Name):
        ds = ctx.flow.defs(F).of(x.id)
        for kind, value, stmt in ds:
            if isinstance(value, (ast.ListComp, ast.GeneratorExp)) and len(value.generators) == 1:
                g = value.generators[0]
                if ast.unparse(g.iter) == ename and not g.ifs and isinstance(value.elt, ast.Call) and canon(getattr(value.elt.func, "attr", "")) in ("NewIntervalVar",):
                    full = True
            elif isinstance(value, ast.List) and not value.elts:
                # filled by append in a loop over the element
                for n in ast.walk(mloop):
                    if isinstance(n, ast.For) and ast.unparse(n.iter) == ename:
                        apps = [y for y in ast.walk(n) if isinstance(y, ast.Call) and isinstance(y.func, ast.Attribute) and y.func.attr == "append" and ast.unparse(y.func.value) == x.id]
                        if len(apps) == 1:
                            full = True
    elif isinstance(x, (ast.ListComp, ast.GeneratorExp)) and len(x.generators) == 1:
        g = x.generators[0]
        full = ast.unparse(g.iter) == ename and not g.ifs
    if not full:
        return bad("the interval list does not contain one interval for every entry of the machine")
    # table: one list per machine, filled from every operation by machine id
    created = False
    filled = False
    for n in own_nodes(F.node):
        if isinstance(n, (ast.Assign, ast.AnnAssign)):
            t = n.targets[0] if isinstance(n, ast.Assign) else n.target
            if isinstance(t, ast.Name) and t.id == tname and isinstance(n.value, ast.ListComp):
                g = n.value.generators[0]
                if ast.unparse(g.iter).replace(" ", "").endswith("range(instance.num_machines)") and isinstance(n.value.elt, ast.List) and not n.value.elts if False else ast.unparse(g.iter).replace(" ", "").endswith("range(instance.num_machines)"):
                    created = True
        recv = n.func.value if isinstance(n, ast.Call) and isinstance(n.func, ast.Attribute) else None
        if isinstance(recv, ast.Name):
            recv = ctx.norm.xexpr(F, recv, depth=1)  # `row = table[op.machine_id]; row.append(...)` (one step: keep the table's name)
        if isinstance(n, ast.Call) and isinstance(n.func, ast.Attribute) and n.func.attr == "append" and isinstance(recv, ast.Subscript):
            if ast.unparse(recv.value) == tname and ctx.norm.xtext(F, recv.slice).endswith(".machine_id"):
                if _over_all_operations(ctx, F, n) and not any(isinstance(p, ast.If) for p in _if_parents(F, n)):
                    filled = True
    if not created:
        return bad(f"`{tname}` is not created with one list per machine")
    if not filled:
        return bad(f"`{tname}` is not filled from every operation under its machine id")
    chk.ok("R03.b", solve.qualname, F.loc(c), "one AddNoOverlap per machine over all intervals of that machine")


def _if_parents(F, node):
    out = []
    cur = F.module.parents.get(node)
    while cur is not None and cur is not F.node:
        if isinstance(cur, ast.If):
            out.append(cur)
        cur = F.module.parents.get(cur)
    return out


def _is_status(ctx, F, e) -> bool:
    """e is the solver status: the value returned by `<solver>.Solve(...)`,
    whatever local it is kept in."""
    t = ctx.norm.xtext(F, e)
    if ".Solve(" in t or ".solve(" in t:
        return True
    if isinstance(e, ast.Name):
        # names that are not single-definition in the flattened function
        for d in ctx.flow.defs(F).of(e.id):
            if d[1] is not None and (".Solve(" in ast.unparse(d[1]) or ".solve(" in ast.unparse(d[1])):
                return True
            if d[1] is not None and isinstance(d[1], ast.Name) and d[1].id != e.id and _is_status(ctx, F, d[1]):
                return True
    return False


def _status(ctx, cls, solve_raw):
    chk = ctx.chk
    solve = ctx.norm.flat(solve_raw, depth=2)
    guards = [n for n in own_nodes(solve.node) if isinstance(n, ast.If) and any(isinstance(x, ast.Raise) for x in n.body)]
    ok = False

    def status_table(expr):
        """{status name: text} when expr is <module dict>.get(status) / [status]."""
        x = ctx.norm.xexpr(solve, expr)
        tbl = None

        def is_status(e):
            return _is_status(ctx, solve, e)

        if isinstance(x, ast.Call) and isinstance(x.func, ast.Attribute) and x.func.attr == "get" and x.args and is_status(x.args[0]):
            tbl = x.func.value
        elif isinstance(x, ast.Subscript) and is_status(x.slice):
            tbl = x.value
        if isinstance(tbl, ast.Name) and tbl.id in solve.module.assigns:
            tbl = solve.module.assigns[tbl.id]
        if isinstance(tbl, ast.Dict):
            return {ast.unparse(k).split(".")[-1]: v for k, v in zip(tbl.keys, tbl.values)}
        return None

    # every `raise NoSolutionFoundError`, with the condition it runs under:
    # (enclosing if, True) when it sits in the body, (enclosing if, False) in the else part
    raises = []
    for rz in own_nodes(solve.node):
        if not isinstance(rz, ast.Raise) or rz.exc is None:
            continue
        exc = dotted(rz.exc.func if isinstance(rz.exc, ast.Call) else rz.exc)
        if exc != "NoSolutionFoundError":
            continue
        child, cur = rz, solve.module.parents.get(rz)
        while cur is not None and cur is not solve.node and not isinstance(cur, ast.If):
            child, cur = cur, solve.module.parents.get(cur)
        if isinstance(cur, ast.If):
            raises.append((cur, child in cur.body))
    for g, in_body in raises:
        t = g.test
        pol = in_body
        while isinstance(t, ast.UnaryOp) and isinstance(t.op, ast.Not):
            t, pol = t.operand, not pol
        names = None
        if isinstance(t, ast.Compare) and len(t.ops) == 1 and isinstance(t.ops[0], (ast.NotIn, ast.In)) and _is_status(ctx, solve, t.left):
            raise_when_absent = isinstance(t.ops[0], ast.NotIn) == pol
            comp = ctx.norm.xexpr(solve, t.comparators[0])
            if isinstance(comp, ast.Name) and comp.id in solve.module.assigns:
                comp = solve.module.assigns[comp.id]
            names = {ast.unparse(e).split(".")[-1] for e in getattr(comp, "elts", [])} or ({ast.unparse(k).split(".")[-1] for k in comp.keys} if isinstance(comp, ast.Dict) else set())
            if not raise_when_absent:
                chk.violation("R03.c", solve_raw, t, f"NoSolutionFoundError is raised when the status IS in {sorted(names)}", loc=solve.loc(g))
                ok = True
                continue
        elif isinstance(t, ast.Compare) and len(t.ops) == 1 and isinstance(t.ops[0], (ast.Is, ast.IsNot)) and ast.unparse(t.comparators[0]) == "None":
            if isinstance(t.ops[0], ast.Is) == pol:
                tb = status_table(t.left)
                if tb is not None:
                    names = set(tb)
        if names is None:
            raise AnalysisError(f"{solve.loc(g)}: no-solution guard `{ast.unparse(g.test)[:60]}` not recognised")
        ok = True
        if names == {"OPTIMAL", "FEASIBLE"}:
            chk.ok("R03.c", solve_raw.qualname, solve.loc(g), "raises NoSolutionFoundError iff status not in {OPTIMAL, FEASIBLE}")
        else:
            chk.violation(
                "R03.c", solve_raw, t,
                f"NoSolutionFoundError is raised when status is not in {sorted(names)}: "
                + ("a feasible (time-limited) solution is discarded" if "FEASIBLE" not in names else "a status without a solution is accepted"),
                loc=solve.loc(g),
            )
    if not ok:
        chk.violation("R03.c", solve_raw, None, "solve never raises NoSolutionFoundError: a status without a solution yields a schedule of zeros")
    # the guard must follow the Solve() call and precede the schedule creation
    md = None
    for n in own_nodes(solve.node):
        if isinstance(n, ast.Dict) and any(isinstance(k, ast.Constant) and k.value == "status" for k in n.keys):
            md = n
    if md is None:
        raise AnalysisError("solve: metadata dict not recognised")
    kv = {k.value: v for k, v in zip(md.keys, md.values) if isinstance(k, ast.Constant)}
    st = kv["status"]
    tb = status_table(st)
    if (
        isinstance(st, ast.IfExp) and isinstance(st.test, ast.Compare) and len(st.test.ops) == 1
        and isinstance(st.test.ops[0], (ast.Eq, ast.NotEq))
        and (
            # status == OPTIMAL (either way round); != swaps the branches
            (_is_status(ctx, solve, st.test.left) and ast.unparse(st.test.comparators[0]).endswith("OPTIMAL"))
            or (_is_status(ctx, solve, st.test.comparators[0]) and ast.unparse(st.test.left).endswith("OPTIMAL"))
        )
        and isinstance(st.body, ast.Constant) and isinstance(st.orelse, ast.Constant)
        and (
            (isinstance(st.test.ops[0], ast.Eq) and st.body.value == "optimal" and st.orelse.value == "feasible")
            or (isinstance(st.test.ops[0], ast.NotEq) and st.body.value == "feasible" and st.orelse.value == "optimal")
        )
    ):
        chk.ok("R03.c", solve_raw.qualname, solve.loc(st), "\"optimal\" only under status == OPTIMAL")
    elif tb is not None:
        opt = [k for k, v in tb.items() if isinstance(v, ast.Constant) and v.value == "optimal"]
        if opt == ["OPTIMAL"]:
            chk.ok("R03.c", solve_raw.qualname, solve.loc(st), "\"optimal\" only for status OPTIMAL (status table)")
        else:
            chk.violation("R03.c", solve_raw, st, f"the status table reports \"optimal\" for {opt}", loc=solve.loc(st))
    elif isinstance(st, ast.IfExp):
        chk.violation("R03.c", solve_raw, st, f"status text is `{ast.unparse(st)}`: \"optimal\" can be reported for a solution that is not proven optimal", loc=solve.loc(st))
    else:
        chk.violation("R03.c", solve_raw, st, f"status text `{ast.unparse(st)}` does not depend on the solver status", loc=solve.loc(st))
    mk = kv.get("makespan")
    if mk is not None:
        mk = ctx.norm.xexpr(solve, mk, depth=2) if isinstance(mk, ast.Call) and canon(getattr(mk.func, "attr", "")) != "Value" else mk  # a one-expression accessor
    if mk is not None and isinstance(mk, ast.Call) and canon(getattr(mk.func, "attr", "")) == "Value" and mk.args and _is_objective_var(ctx, solve, mk.args[0]):
        chk.ok("R03.c", solve_raw.qualname, solve.loc(mk), "reported makespan = solver.Value(objective variable)")
    else:
        chk.violation("R03.c", solve_raw, mk, f"the reported makespan is `{ast.unparse(mk) if mk is not None else 'missing'}`, not the solver's value of the objective variable")


def _rebuild(ctx, cls):
    chk = ctx.chk
    # the rebuild is judged on the flattened solve (private steps such as
    # _create_schedule inlined), so it does not depend on how solve is split
    solve = cls.methods.get("solve")
    if solve is None:
        raise AnalysisError("ORToolsSolver.solve vanished")
    cs = ctx.norm.flat(solve, depth=3)
    sorts = [
        n for n in own_nodes(cs.node)
        if isinstance(n, ast.Call) and ((isinstance(n.func, ast.Name) and n.func.id == "sorted") or (isinstance(n.func, ast.Attribute) and n.func.attr == "sort"))
    ]
    if not sorts:
        raise AnalysisError("_create_schedule: no sort of the machine sequences found")
    for s in sorts:
        key = next((k.value for k in s.keywords if k.arg == "key"), None)
        if any(k.arg == "reverse" and not (isinstance(k.value, ast.Constant) and k.value.value is False) for k in s.keywords):
            chk.violation("R03.d", cs, s, "machine sequences are sorted in reverse", loc=cs.loc(s))
            continue
        lam = key_lambda(cs, key, cls, ctx.repo)
        if lam is None:
            raise AnalysisError(f"{cs.loc(s)}: sort key `{ast.unparse(key) if key is not None else 'natural order'}` not recognised")
        p = lam.args.args[0].arg
        b = lam.body
        if isinstance(b, ast.Tuple) and len(b.elts) >= 3 and ast.unparse(b.elts[0]) == f"{p}.machine_id":
            # one sort of all operations, machine by machine: within a machine the order is that of the remaining components
            b = ast.Tuple(elts=list(b.elts[1:]), ctx=ast.Load())
        if isinstance(b, ast.Tuple) and len(b.elts) >= 2:
            e0, e1 = ast.unparse(b.elts[0]), ast.unparse(b.elts[1])
            if e0 == f"{p}.start_time" and (e1 == f"{p}.end_time" or e1.endswith(".duration")):
                chk.ok("R03.d", cs.qualname, cs.loc(s), f"sorted by ({e0}, {e1})")
            else:
                chk.violation("R03.d", cs, s, f"sort key ({e0}, {e1}) is not (start time, end time)", loc=cs.loc(s))
        elif ast.unparse(b) == f"{p}.start_time":
            chk.violation(
                "R03.d", cs, s,
                "machine sequences are ordered by start time only: a zero-duration operation and a positive-duration "
                "operation starting at the same time can come out in the order the validator rejects "
                "(end of previous > start of next), so a correct solution raises ValidationError",
                loc=cs.loc(s),
            )
        elif ast.unparse(b) == f"{p}.end_time":
            chk.violation("R03.d", cs, s, "machine sequences are ordered by end time only: a zero-duration operation ending when a longer one ends is misplaced", loc=cs.loc(s))
        else:
            chk.violation("R03.d", cs, s, f"machine sequences are ordered by `{ast.unparse(b)}`, not by (start time, end time)", loc=cs.loc(s))
    # the schedule must be built for every machine list and validated (Schedule(...))
    built = [n for n in own_nodes(cs.node) if isinstance(n, ast.Call) and ast.unparse(n.func) == "Schedule"]
    if not built or not (any(k.arg == "schedule" for k in built[0].keywords) or len(built[0].args) >= 2):
        chk.violation("R03.d", cs, None, "the rebuilt sequences are not handed to Schedule(schedule=...) (validation skipped)")
    # each operation placed on its own machine with its solved start
    n_sop = 0
    okp = True
    defs = ctx.flow.defs(cs)
    # Only what happens after Solve() belongs to the rebuild: in the flattened
    # solve the model-building loops reuse the same variable names.
    pos = source_pos(cs.node)
    solve_calls = [n for n in own_nodes(cs.node) if isinstance(n, ast.Call) and isinstance(n.func, ast.Attribute) and canon(n.func.attr) == "Solve"]
    after = pos(solve_calls[0]) if solve_calls else -1
    # loop / comprehension bindings (after Solve): name -> iterables it is drawn from
    drawn: dict[str, list] = {}
    for n in ast.walk(cs.node):
        if pos(n) < after:
            continue
        if isinstance(n, (ast.For, ast.comprehension)):
            for x in ast.walk(n.target):
                if isinstance(x, ast.Name):
                    drawn.setdefault(x.id, []).append(n.iter)

    def closure(e):
        seen, work, out = set(), [e], []
        while work:
            cur = work.pop()
            out.append(cur)
            for x in ast.walk(cur):
                if isinstance(x, ast.Name) and x.id not in seen:
                    seen.add(x.id)
                    for d in defs.of(x.id):
                        # d = (kind, value, statement); unpacked components are synthetic nodes
                        at = pos(d[2]) if len(d) > 2 and d[2] is not None else pos(d[1]) if d[1] is not None else -1
                        if d[0] == "value" and d[1] is not None and at >= after:
                            work.append(d[1])
                    work.extend(drawn.get(x.id, []))
        return out

    for c in own_nodes(cs.node):
        if not (isinstance(c, ast.Call) and ast.unparse(c.func) == "ScheduledOperation"):
            continue
        n_sop += 1
        kw = {k.arg: k.value for k in c.keywords}
        o = c.args[0] if c.args else kw.get("operation")
        st = c.args[1] if len(c.args) > 1 else kw.get("start_time")
        m = c.args[2] if len(c.args) > 2 else kw.get("machine_id")
        if o is None or st is None or m is None:
            raise AnalysisError(f"{cs.loc(c)}: ScheduledOperation(...) arguments not recognised")
        def xafter(e, _d=0):
            """alias expansion that only looks at definitions made after Solve()
            (the flattened solve reuses names of the model-building part)"""
            if isinstance(e, ast.Name) and _d < 4:
                ds = []
                for d in defs.of(e.id):
                    at = pos(d[2]) if len(d) > 2 and d[2] is not None else -1
                    if d[0] == "value" and d[1] is not None and at >= after:
                        ds.append(d[1])
                if len(ds) == 1:
                    return xafter(ds[0], _d + 1)
            return ast.unparse(e)

        ot, mt = xafter(o), xafter(m)
        if mt != f"{ot}.machine_id":
            okp = False
            chk.violation("R03.d", cs, c, f"the operation `{ot}` is scheduled on machine `{mt}`, not on its own machine", loc=cs.loc(c))
            continue
        # the list it is appended to / stored in is that machine's
        par = cs.module.parents.get(c)
        holder = None
        if isinstance(par, ast.Call) and isinstance(par.func, ast.Attribute) and par.func.attr == "append" and isinstance(par.func.value, ast.Subscript):
            holder = xafter(par.func.value.slice)
        if holder is not None and holder != mt:
            okp = False
            chk.violation("R03.d", cs, par, f"the operation of machine `{mt}` is appended to the list of machine `{holder}`", loc=cs.loc(par))
            continue
        cl = closure(st)
        txt = " ".join(ast.unparse(x) for x in cl)
        if ROLE["table"] not in txt or "Value(" not in txt:
            okp = False
            chk.violation("R03.d", cs, c, f"the start time `{ast.unparse(st)}` of the rebuilt operation is not the solver's value of that operation's start variable", loc=cs.loc(c))
            continue
        wrong = [
            x for e in cl for x in ast.walk(e)
            if isinstance(x, ast.Subscript) and ast.unparse(x.value).endswith("." + ROLE["table"]) and ctx.norm.xtext(cs, x.slice) != ot
        ]
        if wrong:
            okp = False
            chk.violation("R03.d", cs, wrong[0], f"the start variable is looked up for `{ast.unparse(wrong[0].slice)}`, not for the operation `{ot}` being placed", loc=cs.loc(c))
    if n_sop == 0:
        chk.violation("R03.d", cs, None, "_create_schedule builds no ScheduledOperation")
    elif okp:
        chk.ok("R03.d", cs.qualname, cs.loc(), "every operation placed on its machine's list with its solved start")
