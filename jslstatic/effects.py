"""E5 - effect summaries over the resolved call graph.

For every function: which *shared* objects it may mutate (attribute stores,
subscript stores/deletes, in-place operators on containers, mutator method
calls), which nondeterministic / external sources it reads, and which package
functions it calls.  Summaries are closed over the call graph on demand.
"""

from __future__ import annotations

import ast
from dataclasses import dataclass

from .dataflow import Flow, is_shared
from .paths import Event, Frame, PathEngine
from .repo import ClassInfo, FuncInfo, Repo, dotted
from .resolve import Resolver

CONTAINER_HEADS = {
    "builtins.list", "builtins.dict", "builtins.set", "collections.deque",
    "numpy.ndarray", "collections.defaultdict", "builtins.bytearray",
}
NONDET_PREFIXES = ("random.", "time.", "os.", "datetime.", "uuid.", "secrets.", "np.random.", "numpy.random.")


@dataclass
class Write:
    fi: FuncInfo
    event: Event
    obj: ast.AST  # expression denoting the mutated object
    origins: set
    via: tuple  # call chain (qualnames) from the summarised root

    @property
    def loc(self):
        return self.fi.loc(self.event.node)

    def describe(self):
        return f"{self.event.data.get('text')} @ {self.loc}"


class Effects:
    def __init__(self, repo: Repo, res: Resolver, flow: Flow):
        self.repo = repo
        self.res = res
        self.flow = flow
        self.engine = PathEngine(repo, res, relevant=lambda e: False, max_depth=0)
        self._own: dict[tuple, list[Write]] = {}
        self._calls: dict[tuple, list[tuple[Event, FuncInfo, ClassInfo | None]]] = {}
        self._events: dict[tuple, list[Event]] = {}

    def _key(self, fi, recv_cls):
        return (fi.qualname, recv_cls.qualname if recv_cls else None)

    def events(self, fi: FuncInfo, recv_cls=None) -> list[Event]:
        k = self._key(fi, recv_cls)
        if k not in self._events:
            self._events[k] = self.engine.flat_events(fi, recv_cls)
        return self._events[k]

    def mutated_object(self, ev: Event) -> ast.AST | None:
        """Expression denoting the object a write event mutates, or None for
        a plain local rebinding."""
        d = ev.data
        op = d.get("op")
        tgt = d.get("target")
        if op == "mutcall":
            return tgt
        if op == "loopvar":
            return None
        if isinstance(tgt, ast.Name):
            if op == "augassign":
                heads = self.res.classes_of(ev.fi, tgt, ev.frame.recv_cls)
                if any(h in CONTAINER_HEADS for h in heads):
                    return tgt
            return None
        if isinstance(tgt, (ast.Attribute, ast.Subscript)):
            return tgt.value
        return None

    def own_writes(self, fi: FuncInfo, recv_cls=None) -> list[Write]:
        """Writes of ``fi`` itself whose mutated object is not provably a
        fresh local."""
        k = self._key(fi, recv_cls)
        if k in self._own:
            return self._own[k]
        out = []
        for ev in self.events(fi, recv_cls):
            if ev.kind != "write":
                continue
            obj = self.mutated_object(ev)
            if obj is None:
                continue
            org = self.flow.origins(fi, obj, recv_cls)
            if any(is_shared(o) for o in org):
                out.append(Write(fi, ev, obj, org, ()))
        self._own[k] = out
        return out

    def calls(self, fi: FuncInfo, recv_cls=None):
        k = self._key(fi, recv_cls)
        if k in self._calls:
            return self._calls[k]
        out = []
        fr = None
        for ev in self.events(fi, recv_cls):
            if ev.kind != "call":
                continue
            for t in ev.data.get("targets", []):
                rc = self.engine._callee_recv(ev, t, ev.frame)
                out.append((ev, t, rc))
        self._calls[k] = out
        return out

    def closure(self, fi: FuncInfo, recv_cls=None, max_depth=6, stop=None):
        """(function, recv_cls, via) reachable from ``fi`` (itself first)."""
        seen = {}
        order = []
        stack = [(fi, recv_cls, ())]
        while stack:
            f, rc, via = stack.pop(0)
            k = self._key(f, rc)
            if k in seen:
                continue
            seen[k] = True
            order.append((f, rc, via))
            if len(via) >= max_depth:
                continue
            for ev, t, trc in self.calls(f, rc):
                if stop is not None and stop(t):
                    continue
                if isinstance(t.node, ast.Lambda):
                    continue
                stack.append((t, trc, via + (f.qualname,)))
        return order

    def closure_writes(self, fi, recv_cls=None, max_depth=6, stop=None) -> list[Write]:
        out = []
        for f, rc, via in self.closure(fi, recv_cls, max_depth, stop):
            for w in self.own_writes(f, rc):
                out.append(Write(w.fi, w.event, w.obj, w.origins, via))
        return out

    def nondet_reads(self, fi, recv_cls=None, max_depth=6, stop=None):
        """Calls to nondeterministic / external sources and reads of
        module-level mutable state in the closure of ``fi``."""
        out = []
        for f, rc, via in self.closure(fi, recv_cls, max_depth, stop):
            for ev in self.events(f, rc):
                if ev.kind == "call":
                    name = ev.data.get("name") or ""
                    if name.startswith(NONDET_PREFIXES) or name in ("input", "open", "id"):
                        out.append((f, ev, name, via))
            for n in ast.walk(f.node):
                if isinstance(n, ast.Global):
                    out.append((f, Event("global", n, Frame(f, rc), {}), "global " + ",".join(n.names), via))
        return out
