"""E1 - repository model.

Parses every ``*.py`` below ``<root>/job_shop_lib`` (optionally with an
in-memory overlay ``{relative path: source}``) and offers name resolution
through the package's re-exports, a class table with C3 MRO, and method
resolution.  Nothing from the analysed package is imported or executed.
"""

from __future__ import annotations

import ast
import hashlib
import os
from dataclasses import dataclass, field

from . import PACKAGE, REPO_ROOT


class AnalysisError(Exception):
    """The analysis cannot speak (vanished anchor, unrecognised construct at
    an anchored site, floor undershoot).  Mapped to exit code 2."""


@dataclass
class FuncInfo:
    qualname: str  # module.Class.name / module.name / module.f.<locals>.g
    name: str
    node: ast.FunctionDef | ast.Lambda
    module: "ModuleInfo"
    cls: "ClassInfo | None" = None
    parent: "FuncInfo | None" = None  # enclosing function for closures
    decorators: list[str] = field(default_factory=list)

    @property
    def is_property(self) -> bool:
        return any(
            d in ("property", "functools.cached_property", "cached_property")
            for d in self.decorators
        )

    @property
    def is_setter(self) -> bool:
        return any(d.endswith(".setter") for d in self.decorators)

    @property
    def is_static(self) -> bool:
        return "staticmethod" in self.decorators

    @property
    def is_classmethod(self) -> bool:
        return "classmethod" in self.decorators

    @property
    def params(self) -> list[str]:
        a = self.node.args
        return [x.arg for x in a.posonlyargs + a.args + a.kwonlyargs]

    @property
    def path(self) -> str:
        return self.module.relpath

    def loc(self, node: ast.AST | None = None) -> str:
        n = node if node is not None else self.node
        return f"{self.module.relpath}:{self.module.line(n)}"

    def __hash__(self):
        return hash(self.qualname)

    def __eq__(self, other):
        return isinstance(other, FuncInfo) and other.qualname == self.qualname

    def __repr__(self):
        return f"<func {self.qualname}>"


@dataclass
class ClassInfo:
    qualname: str
    name: str
    node: ast.ClassDef
    module: "ModuleInfo"
    base_exprs: list[str] = field(default_factory=list)
    bases: list[str] = field(default_factory=list)  # resolved qualnames
    methods: dict[str, FuncInfo] = field(default_factory=dict)
    setters: dict[str, FuncInfo] = field(default_factory=dict)
    class_attrs: dict[str, ast.AST] = field(default_factory=dict)
    mro: list[str] = field(default_factory=list)

    def __hash__(self):
        return hash(self.qualname)

    def __eq__(self, other):
        return isinstance(other, ClassInfo) and other.qualname == self.qualname

    def __repr__(self):
        return f"<class {self.qualname}>"


@dataclass
class ModuleInfo:
    name: str
    relpath: str  # relative to repo root, e.g. job_shop_lib/_schedule.py
    source: str
    tree: ast.Module
    imports: dict[str, tuple[str, str | None]] = field(default_factory=dict)
    functions: dict[str, FuncInfo] = field(default_factory=dict)
    classes: dict[str, ClassInfo] = field(default_factory=dict)
    assigns: dict[str, ast.AST] = field(default_factory=dict)
    parents: dict[ast.AST, ast.AST] = field(default_factory=dict)
    # new line -> original line when the module was rewritten by unbundle.py
    line_map: dict[int, int] | None = None

    def line(self, node) -> str:
        ln = getattr(node, "lineno", 0)
        if self.line_map is None:
            return str(ln)
        return f"{self.line_map.get(ln, ln)}~"

    def __hash__(self):
        return hash(self.name)

    def __eq__(self, other):
        return isinstance(other, ModuleInfo) and other.name == self.name


def dotted(node: ast.AST) -> str | None:
    """``a.b.c`` -> "a.b.c" for Name/Attribute chains, else None."""
    parts = []
    while isinstance(node, ast.Attribute):
        parts.append(node.attr)
        node = node.value
    if isinstance(node, ast.Name):
        parts.append(node.id)
        return ".".join(reversed(parts))
    return None


def norm(node: ast.AST | str) -> str:
    """Normalised statement/expression text (used to key findings)."""
    if isinstance(node, str):
        return " ".join(node.split())
    try:
        return " ".join(ast.unparse(node).split())
    except Exception:  # pragma: no cover
        return "<unprintable>"


class Repo:
    def __init__(
        self,
        root: str = REPO_ROOT,
        overlay: dict[str, str] | None = None,
        package: str = PACKAGE,
    ):
        self.root = root
        self.package = package
        self.overlay = dict(overlay or {})
        self.modules: dict[str, ModuleInfo] = {}
        self.classes: dict[str, ClassInfo] = {}
        self.functions: dict[str, FuncInfo] = {}
        self._func_by_node: dict[int, FuncInfo] = {}
        self._load()
        self._link()

    # ------------------------------------------------------------------ load
    def _iter_files(self):
        base = os.path.join(self.root, self.package)
        seen = set()
        for dirpath, dirnames, filenames in os.walk(base):
            dirnames[:] = sorted(
                d for d in dirnames if d != "__pycache__"
            )
            for fn in sorted(filenames):
                if fn.endswith(".py"):
                    full = os.path.join(dirpath, fn)
                    rel = os.path.relpath(full, self.root)
                    seen.add(rel)
                    if rel in self.overlay:
                        if self.overlay[rel] is not None:  # None: removed by the overlay
                            yield rel, self.overlay[rel]
                    else:
                        with open(full, encoding="utf-8") as fh:
                            yield rel, fh.read()
        for rel, src in sorted(self.overlay.items()):
            if rel not in seen and rel.endswith(".py") and src is not None:
                yield rel, src

    @staticmethod
    def _modname(rel: str) -> str:
        mod = rel[:-3].replace(os.sep, ".")
        if mod.endswith(".__init__"):
            mod = mod[: -len(".__init__")]
        return mod

    def _load(self):
        from .unbundle import unbundle

        h = hashlib.sha256()
        sources = dict(self._iter_files())
        # scalar replacement of private aggregates (see unbundle.py); a no-op
        # on the pinned tree
        rewritten, self.unbundle_notes, line_maps = unbundle(sources)
        sources.update(rewritten)
        for rel, src in sources.items():
            h.update(rel.encode())
            h.update(b"\0")
            h.update(src.encode())
            h.update(b"\0")
            try:
                tree = ast.parse(src, filename=rel)
            except SyntaxError as e:
                raise AnalysisError(f"syntax error in {rel}: {e}") from e
            mi = ModuleInfo(self._modname(rel), rel, src, tree)
            mi.line_map = line_maps.get(rel)
            for parent in ast.walk(tree):
                for child in ast.iter_child_nodes(parent):
                    mi.parents[child] = parent
            self.modules[mi.name] = mi
        self.digest = h.hexdigest()

    def _decorators(self, node) -> list[str]:
        out = []
        for d in getattr(node, "decorator_list", []):
            if isinstance(d, ast.Call):
                d = d.func
            out.append(dotted(d) or norm(d))
        return out

    def _is_pkg(self, mi: ModuleInfo) -> bool:
        return mi.relpath.endswith("__init__.py")

    def _abs_import(self, mi: ModuleInfo, module: str | None, level: int):
        if level == 0:
            return module or ""
        parts = mi.name.split(".")
        if not self._is_pkg(mi):
            parts = parts[:-1]
        if level > 1:
            parts = parts[: -(level - 1)]
        if module:
            parts += module.split(".")
        return ".".join(parts)

    def _register_func(self, mi, node, prefix, cls, parent) -> FuncInfo:
        q = f"{prefix}.{node.name}"
        fi = FuncInfo(
            q, node.name, node, mi, cls, parent, self._decorators(node)
        )
        # setters share the property's name: keep the getter under the name
        if fi.is_setter:
            q = q + ".setter"
            fi.qualname = q
        self.functions[q] = fi
        self._func_by_node[id(node)] = fi
        self._register_nested(mi, node, f"{prefix}.{node.name}.<locals>", fi)
        return fi

    def _register_nested(self, mi, fnode, prefix, parent):
        """Nested defs and lambdas directly inside ``fnode``'s body."""
        lam_n = 0
        stack = list(ast.iter_child_nodes(fnode))
        while stack:
            n = stack.pop(0)
            if isinstance(n, (ast.FunctionDef, ast.AsyncFunctionDef)):
                self._register_func(mi, n, prefix, parent.cls, parent)
                continue
            if isinstance(n, ast.ClassDef):
                continue
            if isinstance(n, ast.Lambda):
                lam_n += 1
                q = f"{prefix}.<lambda{lam_n}@{n.lineno}>"
                fi = FuncInfo(q, "<lambda>", n, mi, parent.cls, parent, [])
                self.functions[q] = fi
                self._func_by_node[id(n)] = fi
                self._register_nested(mi, n, q + ".<locals>", fi)
                continue
            stack = list(ast.iter_child_nodes(n)) + stack

    def _load_module_defs(self, mi: ModuleInfo):
        # imports guarded by `if TYPE_CHECKING:` (names used in annotations only)
        # or wrapped in try/except bind the same names
        guarded = []
        for stmt in mi.tree.body:
            if isinstance(stmt, ast.If) and "TYPE_CHECKING" in ast.unparse(stmt.test):
                guarded += [x for x in stmt.body if isinstance(x, (ast.Import, ast.ImportFrom))]
            elif isinstance(stmt, ast.Try):
                guarded += [x for x in stmt.body if isinstance(x, (ast.Import, ast.ImportFrom))]
        for stmt in guarded + list(mi.tree.body):
            if isinstance(stmt, ast.Import):
                for a in stmt.names:
                    local = a.asname or a.name.split(".")[0]
                    target = a.name if a.asname else a.name.split(".")[0]
                    mi.imports[local] = (target, None)
            elif isinstance(stmt, ast.ImportFrom):
                src = self._abs_import(mi, stmt.module, stmt.level)
                for a in stmt.names:
                    mi.imports[a.asname or a.name] = (src, a.name)
            elif isinstance(stmt, (ast.FunctionDef, ast.AsyncFunctionDef)):
                fi = self._register_func(mi, stmt, mi.name, None, None)
                mi.functions[stmt.name] = fi
            elif isinstance(stmt, ast.ClassDef):
                self._load_class(mi, stmt)
            elif isinstance(stmt, ast.Assign):
                for t in stmt.targets:
                    if isinstance(t, ast.Name):
                        mi.assigns[t.id] = stmt.value
            elif isinstance(stmt, ast.AnnAssign):
                if isinstance(stmt.target, ast.Name) and stmt.value:
                    mi.assigns[stmt.target.id] = stmt.value
        # module-level lambdas (e.g. default args) are not needed

    def _load_class(self, mi: ModuleInfo, node: ast.ClassDef):
        q = f"{mi.name}.{node.name}"
        ci = ClassInfo(q, node.name, node, mi)
        # `Base[T]` (a parametrised generic base) is the class `Base`
        ci.base_exprs = [dotted(b.value if isinstance(b, ast.Subscript) else b) or norm(b) for b in node.bases]
        for stmt in node.body:
            if isinstance(stmt, (ast.FunctionDef, ast.AsyncFunctionDef)):
                fi = self._register_func(mi, stmt, q, ci, None)
                fi.cls = ci
                # fix up cls of nested functions registered before cls set
                if fi.is_setter:
                    ci.setters[stmt.name] = fi
                else:
                    ci.methods[stmt.name] = fi
            elif isinstance(stmt, ast.Assign):
                for t in stmt.targets:
                    if isinstance(t, ast.Name):
                        ci.class_attrs[t.id] = stmt.value
            elif isinstance(stmt, ast.AnnAssign):
                if isinstance(stmt.target, ast.Name):
                    ci.class_attrs[stmt.target.id] = (
                        stmt.value if stmt.value is not None else stmt.annotation
                    )
        mi.classes[node.name] = ci
        self.classes[q] = ci

    # ------------------------------------------------------------------ link
    def _link(self):
        for mi in self.modules.values():
            self._load_module_defs(mi)
        # a module-level value imported from another module of the package
        # (constants / tables moved to a `_constants` module) is looked up as
        # if it were assigned here
        for _ in range(3):
            for mi in self.modules.values():
                for local, (src, attr) in mi.imports.items():
                    if attr and local not in mi.assigns and src in self.modules and attr in self.modules[src].assigns:
                        mi.assigns[local] = self.modules[src].assigns[attr]
        # nested functions of methods: propagate cls
        for fi in self.functions.values():
            p = fi.parent
            while fi.cls is None and p is not None:
                fi.cls = p.cls
                p = p.parent
        for ci in self.classes.values():
            ci.bases = [
                self.resolve(ci.module.name, b) or b for b in ci.base_exprs
            ]
        for ci in self.classes.values():
            ci.mro = self._c3(ci.qualname, ())

    def _c3(self, q: str, seen: tuple) -> list[str]:
        if q in seen:
            raise AnalysisError(f"cyclic inheritance at {q}")
        ci = self.classes.get(q)
        if ci is None:
            return [q]
        seqs = [self._c3(b, seen + (q,)) for b in ci.bases] + [list(ci.bases)]
        out = [q]
        seqs = [list(s) for s in seqs if s]
        while seqs:
            for s in seqs:
                cand = s[0]
                if not any(cand in t[1:] for t in seqs):
                    break
            else:
                raise AnalysisError(f"inconsistent MRO for {q}")
            out.append(cand)
            for s in seqs:
                if s and s[0] == cand:
                    del s[0]
            seqs = [s for s in seqs if s]
        return out

    # ------------------------------------------------------------ resolution
    def resolve(self, modname: str, name: str, _depth: int = 0) -> str | None:
        """Resolves a (possibly dotted) name used in module ``modname`` to the
        qualified name of its definition inside the package, following
        ``from .. import`` re-exports.  External names are returned as
        ``<module>.<attr>`` of the import (e.g. ``random.choice``)."""
        if _depth > 12:
            return None
        head, _, rest = name.partition(".")
        mi = self.modules.get(modname)
        if mi is None:
            return None
        target: str | None = None
        if head in mi.classes:
            target = mi.classes[head].qualname
        elif head in mi.functions:
            target = mi.functions[head].qualname
        elif head in mi.imports:
            src, attr = mi.imports[head]
            if attr is None:
                target = src
            elif src in self.modules:
                sub = f"{src}.{attr}"
                if sub in self.modules:
                    target = sub
                else:
                    target = self.resolve(src, attr, _depth + 1) or sub
            else:
                target = f"{src}.{attr}"
        elif head in mi.assigns:
            target = f"{mi.name}.{head}"
        else:
            return None
        if not rest:
            return target
        # attribute of a module or class
        if target in self.modules:
            return self.resolve(target, rest, _depth + 1) or f"{target}.{rest}"
        return f"{target}.{rest}"

    def cls(self, q: str) -> ClassInfo:
        ci = self.classes.get(q)
        if ci is None:
            raise AnalysisError(f"anchor class vanished: {q}")
        return ci

    def find_class(self, name: str) -> ClassInfo:
        """Finds a class by bare name anywhere in the package (unique)."""
        hits = [c for c in self.classes.values() if c.name == name]
        if len(hits) != 1:
            raise AnalysisError(
                f"anchor class {name!r}: {len(hits)} definitions found"
            )
        return hits[0]

    def find_function(self, name: str) -> FuncInfo:
        """Finds a module-level function by bare name (unique)."""
        hits = [
            f
            for m in self.modules.values()
            for n, f in m.functions.items()
            if n == name
        ]
        if len(hits) != 1:
            raise AnalysisError(
                f"anchor function {name!r}: {len(hits)} definitions found"
            )
        return hits[0]

    def func(self, q: str) -> FuncInfo:
        fi = self.functions.get(q)
        if fi is None:
            raise AnalysisError(f"anchor function vanished: {q}")
        return fi

    def method(self, cls: ClassInfo | str, name: str) -> FuncInfo | None:
        """Virtual method lookup through the MRO (package classes only)."""
        ci = cls if isinstance(cls, ClassInfo) else self.classes.get(cls)
        if ci is None:
            return None
        for q in ci.mro:
            c = self.classes.get(q)
            if c and name in c.methods:
                return c.methods[name]
        return None

    def setter(self, cls: ClassInfo | str, name: str) -> FuncInfo | None:
        ci = cls if isinstance(cls, ClassInfo) else self.classes.get(cls)
        if ci is None:
            return None
        for q in ci.mro:
            c = self.classes.get(q)
            if c and name in c.setters:
                return c.setters[name]
        return None

    def need_method(self, cls: ClassInfo | str, name: str) -> FuncInfo:
        fi = self.method(cls, name)
        if fi is None:
            cn = cls.qualname if isinstance(cls, ClassInfo) else cls
            raise AnalysisError(f"anchor method vanished: {cn}.{name}")
        return fi

    def super_method(
        self, recv: ClassInfo, defining: ClassInfo, name: str
    ) -> FuncInfo | None:
        """``super().name`` evaluated in a method defined in ``defining``
        on an object whose class is ``recv``."""
        mro = recv.mro
        if defining.qualname not in mro:
            mro = defining.mro
        i = mro.index(defining.qualname)
        for q in mro[i + 1 :]:
            c = self.classes.get(q)
            if c and name in c.methods:
                return c.methods[name]
        return None

    def is_subclass(self, q: str, base: str) -> bool:
        ci = self.classes.get(q)
        if ci is None:
            return q == base
        return base in ci.mro

    def subclasses(self, base: str, strict: bool = False) -> list[ClassInfo]:
        out = [
            c
            for c in self.classes.values()
            if base in c.mro and not (strict and c.qualname == base)
        ]
        return sorted(out, key=lambda c: c.qualname)

    def class_attr(self, cls: ClassInfo, name: str) -> ast.AST | None:
        for q in cls.mro:
            c = self.classes.get(q)
            if c and name in c.class_attrs:
                return c.class_attrs[name]
        return None

    def enclosing_function(self, mi: ModuleInfo, node: ast.AST) -> FuncInfo | None:
        cur = mi.parents.get(node)
        while cur is not None:
            fi = self._func_by_node.get(id(cur))
            if fi is not None:
                return fi
            cur = mi.parents.get(cur)
        return None

    def func_of_node(self, node: ast.AST) -> FuncInfo | None:
        return self._func_by_node.get(id(node))

    def exported_names(self) -> set[str]:
        """Bare names re-exported by some package ``__init__`` (the public
        surface); a module-level function whose name is not among them is an
        internal helper however it is spelt."""
        if getattr(self, "_exported", None) is None:
            out: set[str] = set()
            for mi in self.modules.values():
                if not self._is_pkg(mi):
                    continue
                for local, (src, attr) in mi.imports.items():
                    out.add(local)
                    if attr:
                        out.add(attr)
                allv = mi.assigns.get("__all__")
                if isinstance(allv, (ast.List, ast.Tuple)):
                    out |= {e.value for e in allv.elts if isinstance(e, ast.Constant) and isinstance(e.value, str)}
            self._exported = out
        return self._exported

    def all_functions(self) -> list[FuncInfo]:
        return sorted(self.functions.values(), key=lambda f: f.qualname)

    def enum_members(self, cls: ClassInfo) -> dict[str, ast.AST]:
        return {
            k: v
            for k, v in cls.class_attrs.items()
            if not k.startswith("_") and k.isupper()
        }


def own_nodes(fnode: ast.AST):
    """Nodes of a function body excluding nested function/class/lambda
    bodies (their nodes belong to the nested FuncInfo)."""
    stack = list(ast.iter_child_nodes(fnode))
    while stack:
        n = stack.pop()
        yield n
        if isinstance(
            n, (ast.FunctionDef, ast.AsyncFunctionDef, ast.ClassDef, ast.Lambda)
        ):
            continue
        stack.extend(ast.iter_child_nodes(n))


def body_of(fnode) -> list[ast.stmt]:
    if isinstance(fnode, ast.Lambda):
        r = ast.Return(value=fnode.body)
        ast.copy_location(r, fnode.body)
        return [r]
    body = list(fnode.body)
    if (
        body
        and isinstance(body[0], ast.Expr)
        and isinstance(body[0].value, ast.Constant)
        and isinstance(body[0].value.value, str)
    ):
        body = body[1:]
    return body
