"""Source pre-passes that undo *API evolution* commits (package wide).

The rules speak the vocabulary of the pinned tree: its public methods and
functions (``baseline_api.PUBLIC_CALLABLES``) and its data attributes
(``BASELINE_ATTRS``).  Two kinds of behaviour-preserving commit move the code
away from that vocabulary without changing what any caller observes:

* **encapsulation** - a data attribute ``x`` of the pinned tree becomes a
  trivial property over a new backing field (``return self._x`` / ``self._x =
  value``) and the class itself now reads and writes ``self._x``;
  also *renaming* an attribute and keeping the old name as such a property.
* **renaming with a forwarding alias** - a public callable ``old`` of the
  pinned tree becomes ``def old(...): return self.new(...)`` (same parameters,
  forwarded in order), the body moves to ``new`` and the package calls ``new``.

Both are folded back before the model is built: the backing field is renamed
to the pinned attribute name everywhere and the property is dropped; ``new``
is renamed to ``old`` everywhere and the forwarder is dropped.  Done only when
the new name is unambiguous in the package (no class outside the hierarchy
assigns / defines it) and the property / forwarder is exactly of the trivial
shape; anything else is left as written.  No-ops on the pinned tree."""
from __future__ import annotations

import ast

from .baseline_api import BASELINE_ATTRS, PUBLIC_CALLABLES


def _body(fn: ast.FunctionDef) -> list[ast.stmt]:
    b = fn.body
    if b and isinstance(b[0], ast.Expr) and isinstance(b[0].value, ast.Constant) and isinstance(b[0].value.value, str):
        b = b[1:]
    return b


def _deco(fn) -> list[str]:
    out = []
    for d in fn.decorator_list:
        try:
            out.append(ast.unparse(d))
        except Exception:  # pragma: no cover
            out.append("?")
    return out


def _classes(trees):
    out = {}
    for rel, t in trees.items():
        for n in ast.walk(t):
            if isinstance(n, ast.ClassDef):
                out.setdefault(n.name, []).append((rel, n))
    return out


def _cone(classes, name: str) -> set[str]:
    """The class, its ancestors and its descendants inside the package (by name)."""
    def bases(n):
        return {ast.unparse(b).rsplit(".", 1)[-1].split("[")[0] for _, c in classes.get(n, []) for b in c.bases}
    up, work = set(), [name]
    while work:
        n = work.pop()
        for b in bases(n):
            if b in classes and b not in up:
                up.add(b)
                work.append(b)
    down, work = set(), [name]
    while work:
        n = work.pop()
        for k in classes:
            if n in bases(k) and k not in down:
                down.add(k)
                work.append(k)
    return {name} | up | down


def _self_name(fn: ast.FunctionDef) -> str | None:
    a = fn.args.posonlyargs + fn.args.args
    return a[0].arg if a else None


def _defines_or_assigns(cls: ast.ClassDef, name: str) -> bool:
    for n in cls.body:
        if isinstance(n, (ast.FunctionDef, ast.AsyncFunctionDef, ast.ClassDef)) and n.name == name:
            return True
        if isinstance(n, (ast.Assign, ast.AnnAssign)):
            for t in (n.targets if isinstance(n, ast.Assign) else [n.target]):
                if isinstance(t, ast.Name) and t.id == name:
                    return True
    for m in cls.body:
        if isinstance(m, (ast.FunctionDef, ast.AsyncFunctionDef)):
            me = _self_name(m)
            for n in ast.walk(m):
                if isinstance(n, ast.Attribute) and isinstance(n.ctx, ast.Store) and n.attr == name and isinstance(n.value, ast.Name) and n.value.id == me:
                    return True
    return False


def _rename_attr(trees, old: str, new: str) -> set[str]:
    touched = set()
    for rel, t in trees.items():
        for n in ast.walk(t):
            if isinstance(n, ast.Attribute) and n.attr == old:
                n.attr = new
                touched.add(rel)
            elif isinstance(n, ast.ClassDef):
                for st in n.body:
                    if isinstance(st, (ast.Assign, ast.AnnAssign)):
                        tg = st.targets[0] if isinstance(st, ast.Assign) else st.target
                        if isinstance(tg, ast.Name) and tg.id == "__slots__" and st.value is not None:
                            keys = st.value.keys if isinstance(st.value, ast.Dict) else getattr(st.value, "elts", [])
                            have = {k.value for k in keys if isinstance(k, ast.Constant)}
                            for k in keys:
                                if isinstance(k, ast.Constant) and k.value == old and new not in have:
                                    k.value = new
                                    touched.add(rel)
    return touched


def unencapsulate(trees: dict[str, ast.Module]) -> dict[str, list[str]]:
    notes: dict[str, list[str]] = {}
    classes = _classes(trees)
    for cname, defs in classes.items():
        base_attrs = BASELINE_ATTRS.get(cname)
        if base_attrs is None:
            continue
        for rel, cls in defs:
            getters, setters = {}, {}
            for st in cls.body:
                if not isinstance(st, ast.FunctionDef):
                    continue
                d = _deco(st)
                if d == ["property"]:
                    getters[st.name] = st
                elif len(d) == 1 and d[0] == f"{st.name}.setter":
                    setters[st.name] = st
            for x, g in list(getters.items()):
                if x not in base_attrs or f"{cname}.{x}" in PUBLIC_CALLABLES:
                    continue
                me = _self_name(g)
                b = _body(g)
                if not (len(b) == 1 and isinstance(b[0], ast.Return) and isinstance(b[0].value, ast.Attribute)
                        and isinstance(b[0].value.value, ast.Name) and b[0].value.value.id == me):
                    continue
                y = b[0].value.attr
                if y == x or y in base_attrs or y.startswith("__"):
                    continue
                s = setters.get(x)
                if s is not None:
                    sb = _body(s)
                    sa = s.args.posonlyargs + s.args.args
                    ok = (
                        len(sb) == 1 and isinstance(sb[0], ast.Assign) and len(sb[0].targets) == 1 and len(sa) == 2
                        and isinstance(sb[0].targets[0], ast.Attribute) and sb[0].targets[0].attr == y
                        and isinstance(sb[0].targets[0].value, ast.Name) and sb[0].targets[0].value.id == sa[0].arg
                        and isinstance(sb[0].value, ast.Name) and sb[0].value.id == sa[1].arg
                    )
                    if not ok:
                        continue
                cone = _cone(classes, cname)
                if any(
                    isinstance(m, (ast.FunctionDef, ast.ClassDef)) and m.name == y
                    for k in cone for _, c2 in classes.get(k, []) for m in c2.body
                ):
                    continue
                # the same property over the same backing field repeated in
                # other classes of the hierarchy goes with it
                def _drop_twins():
                    for k in cone:
                        for _r2, c2 in classes.get(k, []):
                            if c2 is cls:
                                continue
                            keep = []
                            for st2 in c2.body:
                                if isinstance(st2, ast.FunctionDef) and st2.name == x and (_deco(st2) == ["property"] or _deco(st2) == [f"{x}.setter"]):
                                    b2 = _body(st2)
                                    a2 = st2.args.posonlyargs + st2.args.args
                                    triv_get = (
                                        _deco(st2) == ["property"] and len(b2) == 1 and isinstance(b2[0], ast.Return) and isinstance(b2[0].value, ast.Attribute)
                                        and b2[0].value.attr == y and isinstance(b2[0].value.value, ast.Name) and a2 and b2[0].value.value.id == a2[0].arg
                                    )
                                    triv_set = (
                                        _deco(st2) == [f"{x}.setter"] and len(b2) == 1 and isinstance(b2[0], ast.Assign) and len(b2[0].targets) == 1 and len(a2) == 2
                                        and isinstance(b2[0].targets[0], ast.Attribute) and b2[0].targets[0].attr == y
                                        and isinstance(b2[0].value, ast.Name) and b2[0].value.id == a2[1].arg
                                    )
                                    if triv_get or triv_set:
                                        continue
                                keep.append(st2)
                            c2.body = keep or [ast.Pass()]

                if y.startswith("_"):
                    _drop_twins()
                    # a private backing field is only touched inside the
                    # hierarchy: renamed there (whatever the receiver is called:
                    # `self._y`, `other._y` in __eq__), nowhere else - another
                    # class may use the same private name for its own field
                    cls.body = [st for st in cls.body if st is not g and st is not s] or [ast.Pass()]
                    touched = {rel}
                    for k in cone:
                        for r2, c2 in classes.get(k, []):
                            sub = {r2: ast.Module(body=[c2], type_ignores=[])}
                            if _rename_attr(sub, y, x):
                                touched.add(r2)
                else:
                    # a public new name (the attribute was renamed, the old name
                    # kept as an alias): callers anywhere may use it, so it must
                    # be unambiguous in the package
                    others = {k for k, ds in classes.items() for _, c2 in ds if k not in cone and _defines_or_assigns(c2, y)}
                    if others:
                        # another class has an attribute of that name too (two hierarchies given the same
                        # backing field by a shared, since pulled-down base): rename inside this hierarchy only,
                        # provided nobody outside the classes that own such a field touches `.y`
                        owned = set(cone)
                        for o in others:
                            owned |= _cone(classes, o)
                        inside = {id(n) for k in owned for _, c2 in classes.get(k, []) for n in ast.walk(c2)}
                        stray = any(
                            isinstance(n, ast.Attribute) and n.attr == y and id(n) not in inside
                            for t in trees.values() for n in ast.walk(t)
                        )
                        if stray or (owned - set(cone)) & set(cone):
                            continue
                        cls.body = [st for st in cls.body if st is not g and st is not s] or [ast.Pass()]
                        touched = {rel}
                        for k in cone:
                            for r2, c2 in classes.get(k, []):
                                sub = {r2: ast.Module(body=[c2], type_ignores=[])}
                                if _rename_attr(sub, y, x):
                                    touched.add(r2)
                    else:
                        cls.body = [st for st in cls.body if st is not g and st is not s] or [ast.Pass()]
                        touched = _rename_attr(trees, y, x) | {rel}
                for r2 in touched:
                    notes.setdefault(r2, [])
                notes[rel].append(f"{cname}.{x}: trivial property over `{y}` folded back into the attribute `{x}`")
    return notes


def _forward_target(fn: ast.FunctionDef, in_class: str | None):
    """name the function forwards to with exactly its own parameters, or None"""
    b = _body(fn)
    if len(b) != 1 or not isinstance(b[0], (ast.Return, ast.Expr)) or not isinstance(b[0].value, ast.Call):
        return None
    call = b[0].value
    a = fn.args
    params = [x.arg for x in a.posonlyargs + a.args]
    static = "staticmethod" in _deco(fn)
    recv = None
    if in_class is not None and not static:
        if not params:
            return None
        recv, params = params[0], params[1:]
    f = call.func
    if in_class is not None:
        if not (isinstance(f, ast.Attribute) and isinstance(f.value, ast.Name) and f.value.id in ({recv} if recv else set()) | {in_class}):
            return None
        target = f.attr
    else:
        if not isinstance(f, ast.Name):
            return None
        target = f.id
    pos = [x for x in call.args if not isinstance(x, ast.Starred)]
    star = [x for x in call.args if isinstance(x, ast.Starred)]
    kws = {k.arg: k.value for k in call.keywords if k.arg}
    dstar = [k for k in call.keywords if k.arg is None]
    want = params + [x.arg for x in a.kwonlyargs]
    given = []
    for x in pos:
        if not isinstance(x, ast.Name):
            return None
        given.append(x.id)
    for k, v in kws.items():
        if not (isinstance(v, ast.Name) and v.id == k):
            return None
        given.append(k)
    if given != want and sorted(given) != sorted(want):
        return None
    if given[: len(pos)] != want[: len(pos)]:
        return None
    if bool(a.vararg) != bool(star) or bool(a.kwarg) != bool(dstar):
        return None
    if star and not (isinstance(star[0].value, ast.Name) and star[0].value.id == a.vararg.arg):
        return None
    if dstar and not (isinstance(dstar[0].value, ast.Name) and dstar[0].value.id == a.kwarg.arg):
        return None
    return target


def _same_signature(f: ast.FunctionDef, g: ast.FunctionDef) -> bool:
    def sig(fn):
        a = fn.args
        return (
            [x.arg for x in a.posonlyargs + a.args], [x.arg for x in a.kwonlyargs],
            a.vararg.arg if a.vararg else None, a.kwarg.arg if a.kwarg else None,
            [ast.unparse(d) for d in a.defaults], [ast.unparse(d) if d is not None else None for d in a.kw_defaults],
            sorted(d for d in _deco(fn) if d in ("staticmethod", "classmethod")),
        )
    return sig(f) == sig(g)


def fold_aliases(trees: dict[str, ast.Module]) -> dict[str, list[str]]:
    notes: dict[str, list[str]] = {}
    classes = _classes(trees)
    # ---- methods
    for cname, defs in classes.items():
        for rel, cls in defs:
            methods = {st.name: st for st in cls.body if isinstance(st, ast.FunctionDef) and not any(d.endswith(".setter") for d in _deco(st))}
            for old, fn in list(methods.items()):
                if f"{cname}.{old}" not in PUBLIC_CALLABLES or old.startswith("__") or "property" in _deco(fn):
                    continue
                new = _forward_target(fn, cname)
                if new is None or new == old or new.startswith("__") or f"{cname}.{new}" in PUBLIC_CALLABLES:
                    continue
                impl = methods.get(new)
                if impl is None or not _same_signature(fn, impl):
                    continue
                cone = _cone(classes, cname)
                if any(k not in cone and _defines_or_assigns(c2, new) for k, ds in classes.items() for _, c2 in ds):
                    continue
                if any(isinstance(m, ast.FunctionDef) and m.name == new for t in trees.values() for m in t.body):
                    continue
                cls.body = [st for st in cls.body if st is not fn]
                impl.name = old
                touched = _rename_attr(trees, new, old) | {rel}
                for r2 in touched:
                    notes.setdefault(r2, [])
                notes[rel].append(f"{cname}.{old}: forwarding alias of `{new}` folded (the implementation is called `{old}` again)")
    # ---- module-level functions
    for rel, t in list(trees.items()):
        funcs = {st.name: st for st in t.body if isinstance(st, ast.FunctionDef)}
        for old, fn in list(funcs.items()):
            if old not in PUBLIC_CALLABLES or old.startswith("_"):
                continue
            new = _forward_target(fn, None)
            if new is None or new == old or new in PUBLIC_CALLABLES or new.startswith("__"):
                continue
            impl = funcs.get(new)
            if impl is None or not _same_signature(fn, impl):
                continue
            # `new` must mean this function wherever it is bound in the package
            clash = False
            for r2, t2 in trees.items():
                for n in ast.walk(t2):
                    if isinstance(n, (ast.FunctionDef, ast.ClassDef)) and n.name == new and n is not impl:
                        clash = True
                    elif isinstance(n, ast.Name) and n.id == new and isinstance(n.ctx, (ast.Store, ast.Del)):
                        clash = True
                    elif isinstance(n, ast.arg) and n.arg == new:
                        clash = True
            if clash:
                continue
            t.body = [st for st in t.body if st is not fn]
            impl.name = old
            touched = {rel}
            for r2, t2 in trees.items():
                for n in ast.walk(t2):
                    if isinstance(n, ast.Name) and n.id == new:
                        n.id = old
                        touched.add(r2)
                    elif isinstance(n, ast.Attribute) and n.attr == new:
                        n.attr = old
                        touched.add(r2)
                    elif isinstance(n, ast.ImportFrom):
                        seen = set()
                        keep = []
                        for a in n.names:
                            if a.name == new:
                                a.name = old
                                if a.asname == old:
                                    a.asname = None
                                touched.add(r2)
                            key = (a.name, a.asname)
                            if key in seen:
                                continue
                            seen.add(key)
                            keep.append(a)
                        n.names = keep
            for r2 in touched:
                notes.setdefault(r2, [])
            notes[rel].append(f"{old}: forwarding alias of `{new}` folded (the implementation is called `{old}` again)")
    return notes


# --------------------------------------------------------------------------
# "extract superclass" undone: members of a base class the pinned tree does
# not have are pulled down into its subclasses
def _is_setter(fn) -> bool:
    return any(d.endswith(".setter") or d.endswith(".deleter") for d in _deco(fn))


def _module_of(rel: str) -> str:
    m = rel[:-3].replace("/", ".")
    return m[: -len(".__init__")] if m.endswith(".__init__") else m


def _top_bindings(tree: ast.Module) -> dict[str, ast.stmt]:
    out = {}
    stack = list(tree.body)
    while stack:
        n = stack.pop(0)
        if isinstance(n, (ast.Import, ast.ImportFrom)):
            for a in n.names:
                out[a.asname or a.name.split(".")[0]] = n
        elif isinstance(n, (ast.FunctionDef, ast.AsyncFunctionDef, ast.ClassDef)):
            out[n.name] = n
        elif isinstance(n, (ast.Assign, ast.AnnAssign)):
            for t in (n.targets if isinstance(n, ast.Assign) else [n.target]):
                if isinstance(t, ast.Name):
                    out[t.id] = n
        elif isinstance(n, ast.If):
            stack = n.body + n.orelse + stack
        elif isinstance(n, ast.Try):
            stack = n.body + n.orelse + n.finalbody + stack
    return out


def pull_down_new_bases(trees: dict[str, ast.Module]) -> dict[str, list[str]]:
    """For every class that derives from a class of the package that the
    pinned tree does not have (a base class / mixin / template extracted by a
    later commit): the base's members are copied into the subclass (an
    overridden method that the subclass reaches through ``super().m(...)`` is
    copied under a private name and called directly) and the base is replaced
    by its own bases.  The rules then find ``solve`` / ``update`` /
    ``subscribe`` where the pinned tree has them."""
    import copy as _copy

    from .baseline_api import ALL_CLASSES as PUBLIC_CLASSES  # any class the pinned tree has, private ones included

    notes: dict[str, list[str]] = {}
    classes = _classes(trees)
    uniq = {k: v[0] for k, v in classes.items() if len(v) == 1}
    done: set[tuple[str, str]] = set()

    def _bname(b):
        return ast.unparse(b.value if isinstance(b, ast.Subscript) else b).rsplit(".", 1)[-1]

    def base_names(c: ast.ClassDef):
        return [_bname(b) for b in c.bases]

    def pull(cname: str, depth=0):
        if depth > 6 or cname not in uniq:
            return
        rel_c, c = uniq[cname]
        for bname in list(base_names(c)):
            if not (bname in uniq and bname not in PUBLIC_CLASSES):
                continue
            if (cname, bname) in done:
                continue
            done.add((cname, bname))
            pull(bname, depth + 1)  # the base's own new bases first
            rel_b, b = uniq[bname]
            if any(k.arg == "metaclass" for k in b.keywords):
                continue
            own_defs = {(st.name, _is_setter(st)) for st in c.body if isinstance(st, ast.FunctionDef)}
            own_attrs = set()
            for st in c.body:
                if isinstance(st, (ast.Assign, ast.AnnAssign)):
                    for t in (st.targets if isinstance(st, ast.Assign) else [st.target]):
                        if isinstance(t, ast.Name):
                            own_attrs.add(t.id)
            # super().m(...) calls inside the subclass, by method name
            supers: dict[str, list[ast.Call]] = {}
            for m in [st for st in c.body if isinstance(st, ast.FunctionDef)]:
                for n in ast.walk(m):
                    if (
                        isinstance(n, ast.Call) and isinstance(n.func, ast.Attribute) and isinstance(n.func.value, ast.Call)
                        and isinstance(n.func.value.func, ast.Name) and n.func.value.func.id == "super" and not n.func.value.args
                    ):
                        supers.setdefault(n.func.attr, []).append((m, n))
            copied, used_names = [], set()
            for st in b.body:
                if isinstance(st, ast.FunctionDef):
                    key = (st.name, _is_setter(st))
                    if key not in own_defs:
                        new = _copy.deepcopy(st)
                        c.body.append(new)
                        copied.append(new)
                    elif st.name in supers and not _is_setter(st) and "property" not in _deco(st):
                        new = _copy.deepcopy(st)
                        new.name = f"_{bname.strip('_')}_{st.name.strip('_')}_"
                        # static / class methods keep their decorators; the call goes through self either way
                        c.body.append(new)
                        copied.append(new)
                        for m, call in supers[st.name]:
                            me = _self_name(m) or "self"
                            call.func = ast.copy_location(
                                ast.Attribute(value=ast.copy_location(ast.Name(id=me, ctx=ast.Load()), call), attr=new.name, ctx=ast.Load()), call.func
                            )
                elif isinstance(st, (ast.Assign, ast.AnnAssign)):
                    tg = st.targets[0] if isinstance(st, ast.Assign) else st.target
                    if not isinstance(tg, ast.Name):
                        continue
                    if tg.id == "__slots__":
                        mine = next((x for x in c.body if isinstance(x, (ast.Assign, ast.AnnAssign)) and isinstance((x.targets[0] if isinstance(x, ast.Assign) else x.target), ast.Name)
                                     and (x.targets[0] if isinstance(x, ast.Assign) else x.target).id == "__slots__"), None)
                        if mine is not None and isinstance(mine.value, ast.Dict) and isinstance(st.value, ast.Dict):
                            have = {k.value for k in mine.value.keys if isinstance(k, ast.Constant)}
                            for k, v in zip(st.value.keys, st.value.values):
                                if isinstance(k, ast.Constant) and k.value not in have:
                                    mine.value.keys.append(_copy.deepcopy(k))
                                    mine.value.values.append(_copy.deepcopy(v))
                        continue
                    if tg.id not in own_attrs:
                        new = _copy.deepcopy(st)
                        c.body.insert(0, new)
                        copied.append(new)
            for new in copied:
                for n in ast.walk(new):
                    if isinstance(n, ast.Name) and isinstance(n.ctx, ast.Load):
                        used_names.add(n.id)
            # the base is replaced by its own bases
            new_bases = []
            for be in c.bases:
                if _bname(be) == bname:
                    for bb in b.bases:
                        if _bname(bb) in ("Generic", "Protocol"):
                            continue  # the type parameters of the extracted base mean nothing in the subclass
                        if ast.unparse(bb) not in ("object",) and ast.unparse(bb) not in [ast.unparse(x) for x in new_bases + c.bases]:
                            new_bases.append(_copy.deepcopy(bb))
                            for n in ast.walk(bb):
                                if isinstance(n, ast.Name):
                                    used_names.add(n.id)
                else:
                    new_bases.append(be)
            c.bases = new_bases
            # names the copied members need, when the base lives elsewhere
            if rel_b != rel_c:
                tc, tb = trees[rel_c], trees[rel_b]
                have, theirs = _top_bindings(tc), _top_bindings(tb)
                at = 0
                for i, st in enumerate(tc.body):
                    if isinstance(st, (ast.Import, ast.ImportFrom)) or (i == 0 and isinstance(st, ast.Expr)):
                        at = i + 1
                bmod = _module_of(rel_b)
                for name in sorted(used_names):
                    if name in have or name not in theirs or name == bname:
                        continue
                    src = theirs[name]
                    if isinstance(src, ast.Import):
                        a = next(a for a in src.names if (a.asname or a.name.split(".")[0]) == name)
                        node = ast.Import(names=[ast.alias(name=a.name, asname=a.asname)])
                    elif isinstance(src, ast.ImportFrom):
                        a = next(a for a in src.names if (a.asname or a.name) == name)
                        if src.level:
                            parts = rel_b.split("/")[:-1]
                            if src.level > 1:
                                parts = parts[: len(parts) - (src.level - 1)]
                            mod = ".".join(parts) + ("." + src.module if src.module else "")
                        else:
                            mod = src.module
                        node = ast.ImportFrom(module=mod, names=[ast.alias(name=a.name, asname=a.asname)], level=0)
                    else:
                        node = ast.ImportFrom(module=bmod, names=[ast.alias(name=name, asname=None)], level=0)
                    like = tc.body[at - 1] if at else tc.body[0]
                    for x in ast.walk(node):
                        ast.copy_location(x, like)
                    tc.body.insert(at, node)
                    at += 1
            notes.setdefault(rel_c, []).append(f"{cname}: members of the new base class {bname} pulled down ({len(copied)} copied)")

    for cname in list(uniq):
        pull(cname)
    # a base that nobody derives from any more and nobody names is dropped
    for bname, (rel_b, b) in list(uniq.items()):
        if bname in PUBLIC_CLASSES or not any(bn == bname for (_, bn) in done):
            continue
        still = any(bname in base_names(c) for _, c in uniq.values())
        named = any(
            isinstance(n, ast.Name) and n.id == bname for t in trees.values() for n in ast.walk(t)
        ) or any(isinstance(n, ast.Attribute) and n.attr == bname for t in trees.values() for n in ast.walk(t))
        if not still and not named:
            trees[rel_b].body = [st for st in trees[rel_b].body if st is not b]
            notes.setdefault(rel_b, []).append(f"{bname}: no longer used after pull-down, dropped")
    return notes



def pull_down_displaced_methods(trees: dict[str, ast.Module]) -> dict[str, list[str]]:
    """A method that the pinned tree defines in class C (``C.m`` is in
    PUBLIC_CALLABLES) but that C now inherits - pulled up into a base class
    as a template method whose steps C overrides - is copied back into C
    from the nearest base of the package that defines it.  The steps
    (``self._compute_reward(...)``) then resolve in C, where the rules look.
    Not done when the inherited body uses ``super()`` (it would mean another
    class after the copy) or C is not a pinned class."""
    import copy as _copy

    from .baseline_api import ALL_CLASSES

    notes: dict[str, list[str]] = {}
    classes = _classes(trees)
    uniq = {k: v[0] for k, v in classes.items() if len(v) == 1}
    wanted: dict[str, list[str]] = {}
    for key in PUBLIC_CALLABLES:
        if "." in key:
            c, m = key.split(".", 1)
            if "." not in m and not (m.startswith("__") and m.endswith("__")):
                wanted.setdefault(c, []).append(m)
    for cname, ms in sorted(wanted.items()):
        if cname not in uniq or cname not in ALL_CLASSES:
            continue
        rel_c, c = uniq[cname]
        own = {st.name for st in c.body if isinstance(st, (ast.FunctionDef, ast.AsyncFunctionDef))}
        own |= {t.id for st in c.body if isinstance(st, (ast.Assign, ast.AnnAssign)) for t in (st.targets if isinstance(st, ast.Assign) else [st.target]) if isinstance(t, ast.Name)}
        for m in sorted(ms):
            if m in own:
                continue
            # nearest base (depth first, left to right) of the package that defines m
            found, seen, work = None, set(), [ast.unparse(b).rsplit(".", 1)[-1].split("[")[0] for b in c.bases]
            while work and found is None:
                bname = work.pop(0)
                if bname in seen or bname not in uniq:
                    continue
                seen.add(bname)
                rel_b, b = uniq[bname]
                d = next((st for st in b.body if isinstance(st, ast.FunctionDef) and st.name == m and not _is_setter(st)), None)
                if d is not None:
                    found = (rel_b, b, d)
                    break
                work = [ast.unparse(x).rsplit(".", 1)[-1].split("[")[0] for x in b.bases] + work
            if found is None:
                continue
            rel_b, b, d = found
            if f"{b.name}.{m}" in PUBLIC_CALLABLES:
                continue  # the pinned tree has the base's method too: C simply dropped its override
            if any(isinstance(n, ast.Name) and n.id == "super" for n in ast.walk(d)) or "abstractmethod" in " ".join(_deco(d)):
                continue
            new = _copy.deepcopy(d)
            c.body.append(new)
            used = {n.id for n in ast.walk(new) if isinstance(n, ast.Name) and isinstance(n.ctx, ast.Load)}
            if rel_b != rel_c:
                import_names_from(trees, rel_c, rel_b, used, skip={b.name})
            notes.setdefault(rel_c, []).append(f"{cname}.{m}: inherited from {b.name} now (a template method); copied back into {cname}, where the pinned tree defines it")
    return notes


def import_names_from(trees: dict[str, ast.Module], rel_to: str, rel_from: str, used: set[str], skip: set[str] = frozenset()) -> int:
    """Makes the module-level names of ``rel_from`` that ``used`` mentions and
    ``rel_to`` does not bind available in ``rel_to`` (imports copied, own
    definitions imported from the defining module).  Returns how many."""
    tc, tb = trees[rel_to], trees[rel_from]
    have, theirs = _top_bindings(tc), _top_bindings(tb)
    at = 0
    for i, st in enumerate(tc.body):
        if isinstance(st, (ast.Import, ast.ImportFrom)) or (i == 0 and isinstance(st, ast.Expr)):
            at = i + 1
    bmod = _module_of(rel_from)
    n = 0
    for name in sorted(used):
        if name in have or name not in theirs or name in skip:
            continue
        src = theirs[name]
        if isinstance(src, ast.Import):
            a = next(a for a in src.names if (a.asname or a.name.split(".")[0]) == name)
            node = ast.Import(names=[ast.alias(name=a.name, asname=a.asname)])
        elif isinstance(src, ast.ImportFrom):
            a = next(a for a in src.names if (a.asname or a.name) == name)
            if src.level:
                parts = rel_from.split("/")[:-1]
                if src.level > 1:
                    parts = parts[: len(parts) - (src.level - 1)]
                mod = ".".join(parts) + ("." + src.module if src.module else "")
            else:
                mod = src.module
            node = ast.ImportFrom(module=mod, names=[ast.alias(name=a.name, asname=a.asname)], level=0)
        else:
            node = ast.ImportFrom(module=bmod, names=[ast.alias(name=name, asname=None)], level=0)
        like = tc.body[at - 1] if at else tc.body[0]
        for x in ast.walk(node):
            ast.copy_location(x, like)
        tc.body.insert(at, node)
        at += 1
        n += 1
    return n
