"""Variant corpus: mutants (must be reported under the named rule) and
behaviour-preserving refactors (must stay silent).  Edits are exact-once text
replacements on the current tree, applied as in-memory overlays; a variant
whose anchor is gone is 'stale', not a failure."""

VARIANTS = []


def _v(vid, prop, kind, rule, edits, note="", base=None):
    VARIANTS.append(
        {"id": vid, "prop": prop, "kind": kind, "rule": rule, "edits": edits, "note": note, "base": base}
    )


def mutant(vid, prop, rule, rel, old, new, note=""):
    _v(vid, prop, "mutant", rule, [(rel, old, new)], note)


def refactor(vid, prop, rel, old, new, note=""):
    _v(vid, prop, "refactor", None, [(rel, old, new)], note)


def rename(vid, prop, pairs, note=""):
    """Behaviour-preserving rename of private identifiers: pairs of
    (file, old identifier, new identifier), every whole-word occurrence."""
    _v(vid, prop, "refactor", None, [(rel, old, new, "all") for rel, old, new in pairs], note)


OP = "job_shop_lib/_operation.py"
SOP = "job_shop_lib/_scheduled_operation.py"
SCH = "job_shop_lib/_schedule.py"
INST = "job_shop_lib/_job_shop_instance.py"
DISP = "job_shop_lib/dispatching/_dispatcher.py"
FILT = "job_shop_lib/dispatching/_ready_operation_filters.py"
FACT = "job_shop_lib/dispatching/_factories.py"

# ------------------------------------------------------------------ C15
mutant("c15-slots", "C15", "R15.a", OP,
       """        return (
            self.machines == value.machines
            and self.duration == value.duration
            and self.job_id == value.job_id
            and self.position_in_job == value.position_in_job
            and self.operation_id == value.operation_id
        )""",
       "        return self.__slots__ == value.__slots__",
       "the original defect: class-level mapping compared")
mutant("c15-drop-duration", "C15", "R15.a", OP,
       "            and self.duration == value.duration\n", "")
mutant("c15-hash-field", "C15", "R15.b", OP,
       "            and self.operation_id == value.operation_id\n", "")
mutant("c15-sop-start", "C15", "R15.a", SOP,
       "            and self.start_time == value.start_time\n", "")
mutant("c15-sop-or", "C15", "R15.a", SOP,
       "            and self.machine_id == value.machine_id", "            or self.machine_id == value.machine_id")
mutant("c15-sop-identity", "C15", "R15.a", SOP,
       "self.operation == value.operation", "self.operation is value.operation")
mutant("c15-sop-cross", "C15", "R15.a", SOP,
       "self.start_time == value.start_time", "self.start_time == value.machine_id")
mutant("c15-sched-instance-only", "C15", "R15.a", SCH,
       "        return self.schedule == value.schedule", "        return self.instance == value.instance")
mutant("c15-inst-name", "C15", "R15.a", INST,
       "        return self.jobs == other.jobs", "        return self.name == other.name")
mutant("c15-guard-class", "C15", "R15.c", SOP,
       "        if not isinstance(value, ScheduledOperation):", "        if not isinstance(value, Operation):")
refactor("c15-r-tuple", "C15", SOP,
         """        return (
            self.operation == value.operation
            and self.start_time == value.start_time
            and self.machine_id == value.machine_id
        )""",
         """        return (self.operation, self.start_time, self._machine_id) == (
            value.operation, value.start_time, value._machine_id)""")
refactor("c15-r-early-false", "C15", SCH,
         "        return self.schedule == value.schedule",
         "        if self._schedule != value._schedule:\n            return False\n        return True")
_OP_EQ = """        return (
            self.machines == value.machines
            and self.duration == value.duration
            and self.job_id == value.job_id
            and self.position_in_job == value.position_in_job
            and self.operation_id == value.operation_id
        )"""
mutant("c15-self-slots-loop", "C15", "R15.a", OP, _OP_EQ,
       "        return all(getattr(self, s) == getattr(value, s) for s in self.__slots__)",
       "round-4 seed C15-v1XH: self.__slots__ is the most derived class's, a subclass with its own slots compares nothing of the base")
refactor("c15-r-class-slots-loop", "C15", OP, _OP_EQ,
         "        return all(getattr(self, s) == getattr(value, s) for s in Operation.__slots__)",
         "the explicitly named class's slots: the same five fields for every subclass")
refactor("c15-r-extra-field", "C15", INST,
         "        return self.jobs == other.jobs", "        return self.jobs == other.jobs and self.name == other.name",
         "stricter equality still distinguishes content")

# ------------------------------------------------------------------ C07
mutant("c07-sorted", "C07", "R07.a", FILT,
       "    return immediate_operations\n", "    return sorted(immediate_operations, key=lambda o: o.duration)\n")
mutant("c07-no-break", "C07", "R07.a", FILT,
       "                non_dominated_operations.append(operation)\n                break\n",
       "                non_dominated_operations.append(operation)\n",
       "flexible operation appended once per non-dominated machine")
mutant("c07-foreign", "C07", "R07.a", FILT,
       "            return [operation]\n", "            return [dispatcher.instance.jobs[0][0]]\n")
mutant("c07-set", "C07", "R07.a", FILT,
       "    return filtered_operations\n", "    return list(set(filtered_operations))\n")
mutant("c07-mutate-input", "C07", "R07.e", FILT,
       "    min_start_time = dispatcher.min_start_time(operations)\n    immediate_operations",
       "    min_start_time = dispatcher.min_start_time(operations)\n    operations.sort(key=lambda o: o.operation_id)\n    immediate_operations",
       "sorts the cached raw ready list in place")
mutant("c07-fold-broken", "C07", "R07.b", FACT,
       "pruned_operations = pruning_function(dispatcher, pruned_operations)",
       "pruned_operations = pruning_function(dispatcher, operations)",
       "every filter sees the original list: only the last one takes effect")
mutant("c07-skip-last", "C07", "R07.b", FACT,
       "        for pruning_function in filter_functions:", "        for pruning_function in filter_functions[:-1]:")
mutant("c07-registry-swap", "C07", "R07.c", FACT,
       "        ReadyOperationsFilterType.NON_IDLE_MACHINES: filter_non_idle_machines,",
       "        ReadyOperationsFilterType.NON_IDLE_MACHINES: filter_non_immediate_machines,")
mutant("c07-avail-ignores-filter", "C07", "R07.d", DISP,
       """            available_operations = self.ready_operations_filter(
                self, available_operations
            )
        return available_operations""",
       """            filtered = self.ready_operations_filter(
                self, available_operations
            )
        return available_operations""")
mutant("c07-helper-write", "C07", "R07.e", FILT,
       "    working_machines = [False] * self.instance.num_machines\n",
       "    working_machines = [False] * self.instance.num_machines\n    self.machine_next_available_time[0] = 0\n")
refactor("c07-r-comprehension", "C07", FILT,
         """    immediate_operations: list[Operation] = []
    for operation in operations:
        start_time = dispatcher.earliest_start_time(operation)
        if start_time == min_start_time:
            immediate_operations.append(operation)

    return immediate_operations""",
         """    return [
        operation for operation in operations
        if dispatcher.earliest_start_time(operation) == min_start_time
    ]""")
refactor("c07-r-helper", "C07", FILT,
         """    non_dominated_operations: list[Operation] = []
    for operation in operations:
        if any(
            is_immediate_machine[machine_id]
            for machine_id in operation.machines
        ):
            non_dominated_operations.append(operation)

    return non_dominated_operations


def _get_min_machine_end_times(""",
         """    return _keep(operations, is_immediate_machine)


def _keep(ops, flags):
    kept = []
    for op in ops:
        if any(flags[m] for m in op.machines):
            kept.append(op)
    return kept


def _get_min_machine_end_times(""")
refactor("c07-r-continue", "C07", FILT,
         """                non_dominated_operations.append(operation)
                break
""",
         """                non_dominated_operations.append(operation)
                break
            continue
""")
refactor("c07-r-fold-rename", "C07", FACT,
         """        pruned_operations = operations
        for pruning_function in filter_functions:
            pruned_operations = pruning_function(dispatcher, pruned_operations)

        return pruned_operations""",
         """        current = operations
        for f in filter_functions:
            current = f(dispatcher, current)
        return current""")

# ------------------------------------------------------------------ C05
UOBS = "job_shop_lib/dispatching/_unscheduled_operations_observer.py"
RULES = "job_shop_lib/dispatching/rules/_dispatching_rules_functions.py"
mutant("c05-d1-alias", "C05", "R05.b", DISP,
       "        uncompleted_operations = list(self.unscheduled_operations())\n",
       "        uncompleted_operations = self.unscheduled_operations()\n",
       "the original defect")
mutant("c05-no-clear-dispatch", "C05", "R05.a", DISP,
       "        self._job_next_available_time[job_id] = end_time\n        self._cache = {}\n",
       "        self._job_next_available_time[job_id] = end_time\n")
mutant("c05-clear-after-notify", "C05", "R05.a", DISP,
       """        self._cache = {}

        # Notify subscribers
        for subscriber in self.subscribers:
            subscriber.update(scheduled_operation)
""",
       """        # Notify subscribers
        for subscriber in self.subscribers:
            subscriber.update(scheduled_operation)
        self._cache = {}
""", "observers query a stale cache")
mutant("c05-no-clear-reset", "C05", "R05.a", DISP,
       "        self._job_next_available_time = [0] * self.instance.num_jobs\n        self._cache = {}\n        for subscriber",
       "        self._job_next_available_time = [0] * self.instance.num_jobs\n        for subscriber")
mutant("c05-clear-before-write", "C05", "R05.a", DISP,
       """        self._machine_next_available_time[machine_id] = end_time
        self._job_next_operation_index[job_id] += 1
        self._job_next_available_time[job_id] = end_time
        self._cache = {}
""",
       """        self._cache = {}
        self._machine_next_available_time[machine_id] = end_time
        self._job_next_operation_index[job_id] += 1
        self._job_next_available_time[job_id] = end_time
""")
mutant("c05-sort-available", "C05", "R05.b", RULES,
       """    return min(
        dispatcher.available_operations(),
        key=lambda operation: operation.duration,
    )""",
       """    ops = dispatcher.available_operations()
    ops.sort(key=lambda operation: operation.duration)
    return ops[0]""", "a rule sorting the memoised list in place")
mutant("c05-machines-append", "C05", "R05.b", DISP,
       "        return list(available_machines)\n",
       "        result = self.available_jobs()\n        result.extend(available_machines)\n        return result\n")
mutant("c05-param-flow", "C05", "R05.b", RULES,
       """    return min(
        dispatcher.available_operations(),
        key=lambda operation: operation.position_in_job,
    )""",
       """    return _first(dispatcher.available_operations())


def _first(ops):
    ops.sort(key=lambda operation: operation.position_in_job)
    return ops[0]""", "memoised list handed to a helper that sorts its parameter")
mutant("c05-cached-arg", "C05", "R05.c", DISP,
       "    @_dispatcher_cache\n    def available_jobs(self) -> list[int]:",
       "    @_dispatcher_cache\n    def available_jobs(self, flexible_only: bool = False) -> list[int]:")
mutant("c05-cache-min-start", "C05", "R05.c", DISP,
       "    def min_start_time(self, operations: list[Operation]) -> int:",
       "    @_dispatcher_cache\n    def min_start_time(self, operations: list[Operation]) -> int:",
       "memoising a method with an argument: filters call it with different lists")
mutant("c05-query-writes", "C05", "R05.d", DISP,
       "        current_time = self.current_time()\n        ongoing_operations = []\n",
       "        current_time = self.current_time()\n        self._job_next_available_time[0] = current_time\n        ongoing_operations = []\n")
mutant("c05-obs-pop", "C05", "R05.e", UOBS,
       "            job_deque.popleft()", "            job_deque.pop()")
mutant("c05-obs-wrong-job", "C05", "R05.e", UOBS,
       "        job_id = scheduled_operation.operation.job_id\n", "        job_id = scheduled_operation.machine_id\n")
refactor("c05-r-clear-method", "C05", DISP,
         "        self._job_next_available_time[job_id] = end_time\n        self._cache = {}\n",
         "        self._job_next_available_time[job_id] = end_time\n        self._cache.clear()\n")
refactor("c05-r-copy-method", "C05", DISP,
         "        uncompleted_operations = list(self.unscheduled_operations())\n",
         "        uncompleted_operations = self.unscheduled_operations().copy()\n")
refactor("c05-r-concat", "C05", DISP,
         """        uncompleted_operations = list(self.unscheduled_operations())
        uncompleted_operations.extend(
            scheduled_operation.operation
            for scheduled_operation in self.ongoing_operations()
        )
        return uncompleted_operations""",
         """        return self.unscheduled_operations() + [
            scheduled_operation.operation
            for scheduled_operation in self.ongoing_operations()
        ]""")
_v("c05-r-helper-clear", "C05", "refactor", None, [
    (DISP, """        self._job_next_available_time[job_id] = end_time
        self._cache = {}
""", """        self._job_next_available_time[job_id] = end_time
        self._invalidate()
"""),
    (DISP, """    def create_or_get_observer(
        self,""", """    def _invalidate(self) -> None:
        self._cache = {}

    def create_or_get_observer(
        self,"""),
], "cache clear extracted into a helper")
refactor("c05-r-local-sort", "C05", RULES,
         """    return min(
        dispatcher.available_operations(),
        key=lambda operation: operation.duration,
    )""",
         """    ops = sorted(dispatcher.available_operations(), key=lambda operation: operation.duration)
    ops.reverse()
    return ops[-1]""", "mutating a fresh copy is fine")

# ------------------------------------------------------------------ C09
ENV1 = "job_shop_lib/reinforcement_learning/_single_job_shop_graph_env.py"
ENVM = "job_shop_lib/reinforcement_learning/_multi_job_shop_graph_env.py"
mutant("c09-index-before-check", "C09", "R09.a", DISP,
       """        if not self.is_operation_ready(operation):
            raise ValidationError("Operation is not ready to be scheduled.")

        if machine_id is None:
            machine_id = operation.machine_id
""",
       """        if not self.is_operation_ready(operation):
            raise ValidationError("Operation is not ready to be scheduled.")
        self._job_next_operation_index[operation.job_id] += 1
        if machine_id is None:
            machine_id = operation.machine_id
""", "index advanced before the ScheduledOperation constructor can reject the machine")
mutant("c09-append-before-order-check", "C09", "R09.a", SCH,
       """        self._check_start_time_of_new_operation(scheduled_operation)
        self.schedule[scheduled_operation.machine_id].append(
            scheduled_operation
        )
""",
       """        self.schedule[scheduled_operation.machine_id].append(
            scheduled_operation
        )
        self._check_start_time_of_new_operation(scheduled_operation)
""")
mutant("c09-no-readiness", "C09", "R09.d", DISP,
       """        if not self.is_operation_ready(operation):
            raise ValidationError("Operation is not ready to be scheduled.")

""", "")
mutant("c09-no-eligibility", "C09", "R09.d", SOP,
       """        if value not in self.operation.machines:
            raise ValidationError(
                f"Operation cannot be scheduled on machine {value}. "
                f"Valid machines are {self.operation.machines}."
            )
""", "")
mutant("c09-validate-late", "C09", "R09.a", DISP,
       """        scheduled_operation = ScheduledOperation(
            operation, start_time, machine_id
        )
        self.schedule.add(scheduled_operation)
""",
       """        self._job_next_available_time[operation.job_id] = start_time
        scheduled_operation = ScheduledOperation(
            operation, start_time, machine_id
        )
        self.schedule.add(scheduled_operation)
""")
mutant("c09-next-op-no-raise", "C09", "R09.d", DISP,
       """        if (
            len(self.instance.jobs[job_id])
            <= self._job_next_operation_index[job_id]
        ):
            raise ValidationError(
                f"No more operations left for job {job_id} to schedule."
            )
        return self.instance.jobs[job_id][
            self._job_next_operation_index[job_id]
        ]""",
       """        return self.instance.jobs[job_id][
            min(self._job_next_operation_index[job_id], len(self.instance.jobs[job_id]) - 1)
        ]""")
mutant("c09-env-write-first", "C09", "R09.c", ENV1,
       "        job_id, machine_id = action\n        operation = self.dispatcher.next_operation(job_id)\n",
       "        job_id, machine_id = action\n        self.reward_function.rewards.append(0)\n        operation = self.dispatcher.next_operation(job_id)\n")
mutant("c09-menv-write-first", "C09", "R09.c", ENVM,
       "        obs, reward, done, truncated, info = (\n            self.single_job_shop_graph_env.step(action)\n        )",
       "        self.render_mode = None\n        obs, reward, done, truncated, info = (\n            self.single_job_shop_graph_env.step(action)\n        )")
mutant("c09-notify-before-add", "C09", "R09.b", DISP,
       """        self.schedule.add(scheduled_operation)
        self._update_tracking_attributes(scheduled_operation)
""",
       """        for subscriber in self.subscribers:
            subscriber.update(scheduled_operation)
        self.schedule.add(scheduled_operation)
        self._update_tracking_attributes(scheduled_operation)
""")
refactor("c09-r-inline-ready", "C09", DISP,
         "        if not self.is_operation_ready(operation):\n            raise ValidationError(\"Operation is not ready to be scheduled.\")",
         "        if self._job_next_operation_index[operation.job_id] != operation.position_in_job:\n            raise ValidationError(\"Operation is not ready to be scheduled.\")")
refactor("c09-r-local-sop", "C09", DISP,
         """        scheduled_operation = ScheduledOperation(
            operation, start_time, machine_id
        )
        self.schedule.add(scheduled_operation)""",
         """        sop = ScheduledOperation(operation, start_time, machine_id)
        scheduled_operation = sop
        self.schedule.add(sop)""")

# ------------------------------------------------------------------ C10
HIST = "job_shop_lib/dispatching/_history_observer.py"
REM = "job_shop_lib/dispatching/feature_observers/_remaining_operations_observer.py"
FOBS = "job_shop_lib/dispatching/feature_observers/_feature_observer.py"
GUP = "job_shop_lib/graphs/graph_updaters/_graph_updater.py"
NOTIFY = """        for subscriber in self.subscribers:
            subscriber.update(scheduled_operation)
"""
mutant("c10-reversed", "C10", "R10.a", DISP, NOTIFY,
       "        for subscriber in reversed(self.subscribers):\n            subscriber.update(scheduled_operation)\n")
mutant("c10-skip-first", "C10", "R10.a", DISP, NOTIFY,
       "        for subscriber in self.subscribers[1:]:\n            subscriber.update(scheduled_operation)\n")
mutant("c10-conditional", "C10", "R10.a", DISP, NOTIFY,
       "        for subscriber in self.subscribers:\n            if subscriber.is_singleton:\n                subscriber.update(scheduled_operation)\n")
mutant("c10-twice", "C10", "R10.a", DISP, NOTIFY,
       NOTIFY + "        if not self.schedule.is_complete():\n            return\n" + NOTIFY,
       "second notification round when the schedule becomes complete")
mutant("c10-notify-before-state", "C10", "R10.a", DISP,
       """        self._machine_next_available_time[machine_id] = end_time
        self._job_next_operation_index[job_id] += 1
        self._job_next_available_time[job_id] = end_time
        self._cache = {}

        # Notify subscribers
        for subscriber in self.subscribers:
            subscriber.update(scheduled_operation)
""",
       """        self._machine_next_available_time[machine_id] = end_time
        self._job_next_operation_index[job_id] += 1
        self._cache = {}

        # Notify subscribers
        for subscriber in self.subscribers:
            subscriber.update(scheduled_operation)
        self._job_next_available_time[job_id] = end_time
        self._cache = {}
""")
mutant("c10-copy-object", "C10", "R10.a", DISP,
       "            subscriber.update(scheduled_operation)\n",
       "            subscriber.update(ScheduledOperation(scheduled_operation.operation, scheduled_operation.start_time, scheduled_operation.machine_id))\n")
mutant("c10-reset-before-own", "C10", "R10.b", DISP,
       """        self.schedule.reset()
        self._machine_next_available_time = [0] * self.instance.num_machines
        self._job_next_operation_index = [0] * self.instance.num_jobs
        self._job_next_available_time = [0] * self.instance.num_jobs
        self._cache = {}
        for subscriber in self.subscribers:
            subscriber.reset()
""",
       """        self.schedule.reset()
        for subscriber in self.subscribers:
            subscriber.reset()
        self._machine_next_available_time = [0] * self.instance.num_machines
        self._job_next_operation_index = [0] * self.instance.num_jobs
        self._job_next_available_time = [0] * self.instance.num_jobs
        self._cache = {}
""")
mutant("c10-subscribe-front", "C10", "R10.c", DISP,
       "        self.subscribers.append(observer)", "        self.subscribers.insert(0, observer)")
mutant("c10-unsub-pop", "C10", "R10.c", DISP,
       "        self.subscribers.remove(observer)", "        self.subscribers.pop()")
mutant("c10-foreign-subscribe", "C10", "R10.c", GUP,
       "        super().__init__(dispatcher, subscribe=subscribe)\n        self.initial_job_shop_graph",
       "        super().__init__(dispatcher, subscribe=False)\n        if subscribe:\n            dispatcher.subscribers.append(self)\n        self.initial_job_shop_graph")
mutant("c10-guard-removed", "C10", "R10.c", DISP,
       """        if self._is_singleton and any(
            isinstance(observer, self.__class__)
            for observer in dispatcher.subscribers
        ):
            raise ValidationError(""",
       """        if False:
            raise ValidationError(""")
mutant("c10-double-init", "C10", "R10.c", "job_shop_lib/reinforcement_learning/_reward_observers.py",
       "        super().__init__(dispatcher, subscribe=subscribe)\n        self.current_makespan",
       "        super().__init__(dispatcher, subscribe=subscribe)\n        DispatcherObserver.__init__(self, dispatcher, subscribe=subscribe)\n        self.current_makespan")
mutant("c10-hist-copy-start", "C10", "R10.d", HIST,
       "        self.history.append(scheduled_operation)", "        self.history.insert(0, scheduled_operation)")
mutant("c10-hist-no-reset", "C10", "R10.d", HIST,
       "    def reset(self):\n        self.history = []", "    def reset(self):\n        pass")
mutant("c10-cog-ignores-condition", "C10", "R10.e", DISP,
       """            if isinstance(existing_observer, observer) and condition(
                existing_observer
            ):""", "            if isinstance(existing_observer, observer):")
mutant("c10-cog-drops-kwargs", "C10", "R10.e", DISP,
       "        new_observer = observer(self, **kwargs)", "        new_observer = observer(self)")
mutant("c10-update-creates", "C10", "R10.f", REM,
       "    def update(self, scheduled_operation: ScheduledOperation):\n        if FeatureType.JOBS in self.features:\n            job_id",
       "    def update(self, scheduled_operation: ScheduledOperation):\n        self.dispatcher.create_or_get_observer(UnscheduledOperationsObserver)\n        if FeatureType.JOBS in self.features:\n            job_id")
refactor("c10-r-rename-loopvar", "C10", DISP, NOTIFY,
         "        for obs in self.subscribers:\n            obs.update(scheduled_operation)\n")
refactor("c10-r-notify-helper", "C10", DISP,
         NOTIFY + "\n    def create_or_get_observer(",
         "        self._notify(scheduled_operation)\n\n    def _notify(self, scheduled_operation: ScheduledOperation) -> None:\n" + NOTIFY + "\n    def create_or_get_observer(")
mutant("c02-hist-clear", "C02", "R02.c", HIST, "    def reset(self):\n        self.history = []", "    def reset(self):\n        self.history.clear()",
       "round-2 seed C02-t2TA: a history taken before reset is wiped by it")

# ------------------------------------------------------------------ C01
REW = "job_shop_lib/reinforcement_learning/_reward_observers.py"
mutant("c01-no-order-check", "C01", "R01.a", SCH,
       "        self._check_start_time_of_new_operation(scheduled_operation)\n        self.schedule[", "        self.schedule[")
mutant("c01-lt", "C01", "R01.d", SCH,
       "        return previous_operation.end_time <= scheduled_operation.start_time",
       "        return previous_operation.start_time <= scheduled_operation.start_time",
       "accepts overlap with a long predecessor")
mutant("c01-first-not-last", "C01", "R01.d", SCH,
       "        last_operation = self.schedule[new_operation.machine_id][-1]",
       "        last_operation = self.schedule[new_operation.machine_id][0]",
       "needs three operations on a machine to matter")
mutant("c01-swapped-args", "C01", "R01.d", SCH,
       "        if not self._is_valid_start_time(new_operation, last_operation):",
       "        if not self._is_valid_start_time(last_operation, new_operation):")
mutant("c01-wrong-machine-list", "C01", "R01.a", SCH,
       "        self.schedule[scheduled_operation.machine_id].append(\n            scheduled_operation\n        )",
       "        self.schedule[scheduled_operation.operation.machines[0]].append(\n            scheduled_operation\n        )",
       "flexible operations land on their first machine's list")
mutant("c01-insert-front", "C01", "R01.a", SCH,
       "        self.schedule[scheduled_operation.machine_id].append(\n            scheduled_operation\n        )",
       "        self.schedule[scheduled_operation.machine_id].insert(\n            0, scheduled_operation\n        )")
mutant("c01-setter-no-check", "C01", "R01.b", SCH,
       "        Schedule.check_schedule(new_schedule)\n        self._schedule = new_schedule", "        self._schedule = new_schedule")
mutant("c01-outside-writer", "C01", "R01.b", REW,
       "        machine_schedule = self.dispatcher.schedule.schedule[machine_id][:-1]",
       "        machine_schedule = self.dispatcher.schedule.schedule[machine_id][:-1]\n        self.dispatcher.schedule.schedule[machine_id].sort(key=lambda s: s.start_time)")
mutant("c01-alias-writer", "C01", "R01.b", REW,
       "        machine_schedule = self.dispatcher.schedule.schedule[machine_id][:-1]",
       "        full = self.dispatcher.schedule.schedule[machine_id]\n        full.reverse()\n        machine_schedule = full[:-1]")
mutant("c01-advance-before-add", "C01", "R01.c", DISP,
       "        self.schedule.add(scheduled_operation)\n        self._update_tracking_attributes(scheduled_operation)",
       "        self._update_tracking_attributes(scheduled_operation)\n        self.schedule.add(scheduled_operation)")
mutant("c01-eligibility-wrong-field", "C01", "R01.a", SOP,
       "        if value not in self.operation.machines:", "        if self._machine_id not in self.operation.machines:",
       "setter validates the old id, not the new one")
mutant("c01-check-schedule-no-machine", "C01", "R01.d", SCH,
       """                if scheduled_operation.machine_id != machine_id:
                    raise ValidationError(
                        "The machine id of the scheduled operation "
                        f"({ScheduledOperation.machine_id}) does not match "
                        f"the machine id of the machine schedule ({machine_id}"
                        f"). Index of the operation: [{machine_id}][{i}]."
                    )
""", "")
refactor("c01-r-inline-first", "C01", SCH,
         """        is_first_operation = not self.schedule[new_operation.machine_id]
        if is_first_operation:
            return
""",
         """        if not self.schedule[new_operation.machine_id]:
            return
""") 
refactor("c01-r-ge", "C01", SCH,
         "        return previous_operation.end_time <= scheduled_operation.start_time",
         "        return scheduled_operation.start_time >= previous_operation.end_time")

# ------------------------------------------------------------------ C12
EST = "job_shop_lib/dispatching/feature_observers/_earliest_start_time_observer.py"
ISC = "job_shop_lib/dispatching/feature_observers/_is_completed_observer.py"
ISR = "job_shop_lib/dispatching/feature_observers/_is_ready_observer.py"
DUR = "job_shop_lib/dispatching/feature_observers/_duration_observer.py"
mutant("c12-est-no-reset", "C12", "R12.a", EST,
       """        self.earliest_start_times = self._initial_earliest_start_times(
            self.dispatcher
        )
        super().reset()""", "        super().reset()", "the original defect D5")
mutant("c12-makespan-not-reset", "C12", "R12.a", REW,
       "        super().reset()\n        self.current_makespan = self.dispatcher.schedule.makespan()", "        super().reset()")
mutant("c12-rewards-not-reset", "C12", "R12.a", REW,
       "    def reset(self) -> None:\n        \"\"\"Sets rewards attribute to a new empty list.\"\"\"\n        self.rewards = []",
       "    def reset(self) -> None:\n        \"\"\"Sets rewards attribute to a new empty list.\"\"\"")
mutant("c12-features-not-zeroed", "C12", "R12.a", FOBS,
       "        self.set_features_to_zero()\n        self.initialize_features()", "        self.initialize_features()",
       "IsScheduledObserver keeps its flags after reset")
mutant("c12-unsched-reset-noop", "C12", "R12.a", UOBS,
       """        self.unscheduled_operations_per_job = [
            collections.deque(job) for job in self.dispatcher.instance.jobs
        ]""", "        pass")
mutant("c12-remops-late-acquire", "C12", "R12.b", REM,
       """        self._unscheduled_ops_observer = dispatcher.create_or_get_observer(
            UnscheduledOperationsObserver
        )
        super().__init__(
            dispatcher, subscribe=subscribe, feature_types=feature_types
        )""",
       """        super().__init__(
            dispatcher, subscribe=subscribe, feature_types=feature_types
        )
        self._unscheduled_ops_observer = dispatcher.create_or_get_observer(
            UnscheduledOperationsObserver
        )""")
refactor("c12-r-remops-reacquire", "C12", REM,
         "        unscheduled_ops_observer = self._unscheduled_ops_observer\n",
         "        unscheduled_ops_observer = self.dispatcher.create_or_get_observer(\n            UnscheduledOperationsObserver\n        )\n",
         "re-acquiring at use is harmless once the dependency was acquired before subscribing")
_v("c12-d6-original", "C12", "mutant", "R12.b", [
    (REM, "        unscheduled_ops_observer = self._unscheduled_ops_observer\n",
     "        unscheduled_ops_observer = self.dispatcher.create_or_get_observer(\n            UnscheduledOperationsObserver\n        )\n"),
    (REM, """        self._unscheduled_ops_observer = dispatcher.create_or_get_observer(
            UnscheduledOperationsObserver
        )
        super().__init__(""", "        super().__init__("),
], "the original defect D6: dependency acquired only at use, after subscribing")
mutant("c12-graph-no-deepcopy", "C12", "R12.d", GUP,
       "        self.job_shop_graph = deepcopy(self.initial_job_shop_graph)", "        self.job_shop_graph = self.initial_job_shop_graph",
       "third episode starts from a damaged graph")
mutant("c12-graph-alias-initial", "C12", "R12.d", GUP,
       "        self.initial_job_shop_graph = deepcopy(job_shop_graph)", "        self.initial_job_shop_graph = job_shop_graph")
mutant("c12-disp-wrong-length", "C12", "R12.c", DISP,
       """        self._job_next_available_time = [0] * self.instance.num_jobs
        self._cache = {}
        for subscriber""",
       """        self._job_next_available_time = [0] * self.instance.num_machines
        self._cache = {}
        for subscriber""", "needs num_jobs != num_machines")
mutant("c12-disp-forgets-vector", "C12", "R12.c", DISP,
       """        self._job_next_operation_index = [0] * self.instance.num_jobs
        self._job_next_available_time = [0] * self.instance.num_jobs
        self._cache = {}
        for subscriber""",
       """        self._job_next_operation_index = [0] * self.instance.num_jobs
        self._cache = {}
        for subscriber""")
mutant("c12-env-no-dispatcher-reset", "C12", "R12.e", ENV1,
       "        self.dispatcher.reset()\n        obs = self.get_observation()", "        self.dispatcher.schedule.reset()\n        obs = self.get_observation()")
mutant("c12-env-obs-first", "C12", "R12.e", ENV1,
       "        self.dispatcher.reset()\n        obs = self.get_observation()", "        obs = self.get_observation()\n        self.dispatcher.reset()")
mutant("c12-multi-drops-updater", "C12", "R12.e", ENVM,
       "            graph_updater_config=self.graph_updater_config,\n            ready_operations_filter=self.ready_operations_filter,", "            ready_operations_filter=self.ready_operations_filter,",
       "the original defect D7")
refactor("c12-r-clear-rewards", "C12", REW, "        self.rewards = []\n\n\nclass MakespanReward", "        self.rewards.clear()\n\n\nclass MakespanReward")
refactor("c12-r-isready-zero-in-reset", "C12", ISR,
         "    def reset(self):\n        self.initialize_features()",
         "    def reset(self):\n        self.set_features_to_zero()\n        self.initialize_features()")

# ------------------------------------------------------------------ C18
mutant("c18-action-space", "C18", "R18.b", ENV1,
       "            [self.instance.num_jobs, self.instance.num_machines + 1],", "            [self.instance.num_jobs, self.instance.num_machines],", "the original defect D8")
mutant("c18-action-start", "C18", "R18.b", ENV1,
       "            start=[0, -1],", "            start=[0, 0],", "the -1 sentinel is no longer a legal action")
mutant("c18-edge-range", "C18", "R18.b", ENV1,
       "                    fill_value=len(self.job_shop_graph.nodes) + 1,", "                    fill_value=len(self.job_shop_graph.nodes),")
mutant("c18-drop-reward-config", "C18", "R18.a", ENVM,
       "            reward_function_config=self.reward_function_config,\n            graph_updater_config=self.graph_updater_config,", "            graph_updater_config=self.graph_updater_config,")
mutant("c18-swap-config", "C18", "R18.a", ENVM,
       "        self.reward_function_config = reward_function_config\n        self.graph_updater_config = graph_updater_config",
       "        self.reward_function_config = graph_updater_config\n        self.graph_updater_config = reward_function_config")
mutant("c18-truncated", "C18", "R18.c", ENV1,
       "        truncated = False", "        truncated = not self.dispatcher.available_operations()")
mutant("c18-done-early", "C18", "R18.c", ENV1,
       """        self.dispatcher.dispatch(operation, machine_id)

        obs = self.get_observation()
        reward = self.reward_function.last_reward
        done = self.dispatcher.schedule.is_complete()""",
       """        done = self.dispatcher.schedule.is_complete()
        self.dispatcher.dispatch(operation, machine_id)

        obs = self.get_observation()
        reward = self.reward_function.last_reward""")
mutant("c18-mask-pad-false", "C18", "R18.e", ENVM,
       "        padding_value[ObservationSpaceKey.REMOVED_NODES.value] = True", "        padding_value[ObservationSpaceKey.REMOVED_NODES.value] = False")
mutant("c18-pad-front", "C18", "R18.e", "job_shop_lib/reinforcement_learning/_utils.py",
       "    slices = tuple(slice(0, dim) for dim in array.shape)",
       "    slices = tuple(slice(out - dim, out) for dim, out in zip(array.shape, output_shape))")
refactor("c18-r-kwarg-order", "C18", ENVM,
         "            reward_function_config=self.reward_function_config,\n            graph_updater_config=self.graph_updater_config,",
         "            graph_updater_config=self.graph_updater_config,\n            reward_function_config=self.reward_function_config,")
refactor("c18-r-nvec-names", "C18", ENV1,
         """        self.action_space = gym.spaces.MultiDiscrete(
            [self.instance.num_jobs, self.instance.num_machines + 1],
            start=[0, -1],
        )""",
         """        num_machine_choices = 1 + self.instance.num_machines
        self.action_space = gym.spaces.MultiDiscrete(
            [self.instance.num_jobs, num_machine_choices],
            start=[0, -1],
        )""")

refactor("c15-r-matrices", "C15", INST,
         "        return self.jobs == other.jobs",
         "        return (\n            self.durations_matrix == other.durations_matrix\n            and self.machines_matrix == other.machines_matrix\n        )",
         "integer matrices determine the job structure exactly")
mutant("c15-float-views", "C15", "R15.a", INST,
       "        return self.jobs == other.jobs",
       "        return np.array_equal(self.durations_matrix_array, other.durations_matrix_array, equal_nan=True) and np.array_equal(self.machines_matrix_array, other.machines_matrix_array, equal_nan=True)",
       "seeded C15-s3: float32 views are lossy above 2**24")
mutant("c15-private-slots-skipped", "C15", "R15.a", SOP,
       """        return (
            self.operation == value.operation
            and self.start_time == value.start_time
            and self.machine_id == value.machine_id
        )""",
       "        return all(getattr(self, n) == getattr(value, n) for n in self.__slots__ if not n.startswith('_'))",
       "seeded C15-s2: machine assignment lives in a private slot")

# ------------------------------------------------------------------ C02
GIF = "job_shop_lib/visualization/_gantt_chart_video_and_gif_creation.py"
mutant("c02-random-tiebreak", "C02", "R02.a", DISP,
       "        return max(\n            self._machine_next_available_time[machine_id],\n            self._job_next_available_time[operation.job_id],\n        )",
       "        import random\n        return max(\n            self._machine_next_available_time[machine_id],\n            self._job_next_available_time[operation.job_id],\n        ) + random.randint(0, 0)")
mutant("c02-min", "C02", "R02.e", DISP,
       "        return max(\n            self._machine_next_available_time[machine_id],\n            self._job_next_available_time[operation.job_id],\n        )",
       "        return min(\n            self._machine_next_available_time[machine_id],\n            self._job_next_available_time[operation.job_id],\n        )")
mutant("c02-wrong-vector", "C02", "R02.e", DISP,
       "            self._job_next_available_time[operation.job_id],\n        )\n\n    def _update_tracking_attributes(",
       "            self._job_next_available_time[operation.position_in_job],\n        )\n\n    def _update_tracking_attributes(")
mutant("c02-skip-zero-duration", "C02", "R02.d", DISP,
       "        self._machine_next_available_time[machine_id] = end_time\n        self._job_next_operation_index[job_id] += 1\n        self._job_next_available_time[job_id] = end_time\n",
       "        if end_time > scheduled_operation.start_time:\n            self._machine_next_available_time[machine_id] = end_time\n            self._job_next_available_time[job_id] = end_time\n        self._job_next_operation_index[job_id] += 1\n",
       "seeded C01-s2: zero-duration operations leave the clocks stale")
mutant("c02-machine-of-operation", "C02", "R02.d", DISP,
       "        machine_id = scheduled_operation.machine_id\n        end_time = scheduled_operation.end_time",
       "        machine_id = scheduled_operation.operation.machines[0]\n        end_time = scheduled_operation.end_time",
       "flexible operation advances its first machine's clock, not the chosen one")
mutant("c02-start-not-end", "C02", "R02.d", DISP,
       "        self._job_next_available_time[job_id] = end_time\n        self._cache = {}",
       "        self._job_next_available_time[job_id] = scheduled_operation.start_time\n        self._cache = {}")
mutant("c02-replay-default-machine", "C02", "R02.c", GIF,
       "        dispatcher.dispatch(\n            scheduled_operation.operation, scheduled_operation.machine_id\n        )",
       "        dispatcher.dispatch(scheduled_operation.operation)")
mutant("c02-replay-sorted", "C02", "R02.c", GIF,
       "    for i, scheduled_operation in enumerate(schedule_history, start=1):",
       "    for i, scheduled_operation in enumerate(sorted(schedule_history, key=lambda s: s.start_time), start=1):",
       "ties in start time reorder the replay")
mutant("c02-ctor-other-machine", "C02", "R02.e", DISP,
       "        start_time = self.start_time(operation, machine_id)\n",
       "        start_time = self.start_time(operation, operation.machines[0])\n")
refactor("c02-r-locals", "C02", DISP,
         "        return max(\n            self._machine_next_available_time[machine_id],\n            self._job_next_available_time[operation.job_id],\n        )",
         "        machine_free = self._machine_next_available_time[machine_id]\n        job_free = self._job_next_available_time[operation.job_id]\n        return max(job_free, machine_free)")
refactor("c02-r-inline-tracking", "C02", DISP,
         "        job_id = scheduled_operation.job_id\n        machine_id = scheduled_operation.machine_id\n        end_time = scheduled_operation.end_time\n\n        self._machine_next_available_time[machine_id] = end_time\n        self._job_next_operation_index[job_id] += 1\n        self._job_next_available_time[job_id] = end_time\n",
         "        self._machine_next_available_time[scheduled_operation.machine_id] = scheduled_operation.end_time\n        self._job_next_operation_index[scheduled_operation.job_id] += 1\n        self._job_next_available_time[scheduled_operation.job_id] = scheduled_operation.end_time\n")

# ------------------------------------------------------------------ C04
BASE = "job_shop_lib/_base_solver.py"
RSOL = "job_shop_lib/dispatching/rules/_dispatching_rule_solver.py"
RFAC = "job_shop_lib/dispatching/rules/_dispatching_rule_factory.py"
MFAC = "job_shop_lib/dispatching/rules/_machine_chooser_factory.py"
mutant("c04-elapsed-swapped", "C04", "R04.e", BASE,
       "        elapsed_time = time.perf_counter() - time_start", "        elapsed_time = time_start - time.perf_counter()", "the original defect D3")
mutant("c04-elapsed-before-solve", "C04", "R04.e", BASE,
       "        time_start = time.perf_counter()\n        schedule = self.solve(instance)\n        elapsed_time = time.perf_counter() - time_start",
       "        time_start = time.perf_counter()\n        elapsed_time = time.perf_counter() - time_start\n        schedule = self.solve(instance)")
mutant("c04-solved-by-base", "C04", "R04.e", BASE,
       "        schedule.metadata[\"solved_by\"] = self.__class__.__name__", "        schedule.metadata[\"solved_by\"] = BaseSolver.__name__")
mutant("c04-tiebreak-global-max", "C04", "R04.c", RULES,
       "            best_score = max(\n                scores[operation.job_id] for operation in candidates\n            )",
       "            best_score = max(scores)", "the original defect D4")
mutant("c04-tiebreak-min", "C04", "R04.c", RULES,
       "            best_score = max(\n                scores[operation.job_id] for operation in candidates\n            )",
       "            best_score = min(\n                scores[operation.job_id] for operation in candidates\n            )")
mutant("c04-spt-raw-ready", "C04", "R04.a", RULES,
       "    return min(\n        dispatcher.available_operations(),\n        key=lambda operation: operation.duration,\n    )",
       "    return min(\n        dispatcher.raw_ready_operations(),\n        key=lambda operation: operation.duration,\n    )",
       "ignores the installed filter")
mutant("c04-spt-max", "C04", "R04.b", RULES,
       "    return min(\n        dispatcher.available_operations(),\n        key=lambda operation: operation.duration,\n    )",
       "    return max(\n        dispatcher.available_operations(),\n        key=lambda operation: operation.duration,\n    )")
mutant("c04-fcfs-key", "C04", "R04.b", RULES,
       "        key=lambda operation: operation.position_in_job,", "        key=lambda operation: operation.operation_id,")
mutant("c04-mwkr-source", "C04", "R04.b", RULES,
       "    for operation in dispatcher.unscheduled_operations():\n        job_remaining_work[operation.job_id] += operation.duration",
       "    for operation in dispatcher.uncompleted_operations():\n        job_remaining_work[operation.job_id] += operation.duration",
       "running operations counted as remaining work: differs from the observer-based twin")
mutant("c04-mor-duration", "C04", "R04.b", RULES,
       "    for operation in dispatcher.uncompleted_operations():\n        job_remaining_operations[operation.job_id] += 1\n\n    return max(",
       "    for operation in dispatcher.uncompleted_operations():\n        job_remaining_operations[operation.job_id] += operation.duration\n\n    return max(")
mutant("c04-step-default-machine", "C04", "R04.d", RSOL,
       "        dispatcher.dispatch(selected_operation, machine_id)", "        dispatcher.dispatch(selected_operation)")
mutant("c04-registry-swap", "C04", "R04.f", RFAC,
       "        DispatchingRuleType.MOST_WORK_REMAINING: most_work_remaining_rule,", "        DispatchingRuleType.MOST_WORK_REMAINING: most_operations_remaining_rule,")
mutant("c04-chooser-first-last", "C04", "R04.f", MFAC,
       "        MachineChooserType.FIRST: lambda _, operation: operation.machines[0],", "        MachineChooserType.FIRST: lambda _, operation: operation.machines[-1],")
refactor("c04-r-sorted", "C04", RULES,
         "    return min(\n        dispatcher.available_operations(),\n        key=lambda operation: operation.duration,\n    )",
         "    return sorted(\n        dispatcher.available_operations(),\n        key=lambda operation: operation.duration,\n    )[0]")
refactor("c04-r-neg-key", "C04", RULES,
         "    return min(\n        dispatcher.available_operations(),\n        key=lambda operation: operation.position_in_job,\n    )",
         "    return max(\n        dispatcher.available_operations(),\n        key=lambda operation: -operation.position_in_job,\n    )")

# ------------------------------------------------------------------ C19
GEN = "job_shop_lib/generation/_general_instance_generator.py"
IGEN = "job_shop_lib/generation/_instance_generator.py"
mutant("c19-clamp-lower", "C19", "R19.b", GEN,
       "                max_num_machines = min(num_jobs, max_num_machines)\n                min_num_machines = min(min_num_machines, max_num_machines)",
       "                min_num_machines = min(num_jobs, max_num_machines)", "the original defect D10")
mutant("c19-no-cap", "C19", "R19.b", GEN,
       "                max_num_machines = min(num_jobs, max_num_machines)\n                min_num_machines = min(min_num_machines, max_num_machines)",
       "                pass")
mutant("c19-global-seed", "C19", "R19.c", IGEN,
       "        self.rng = random.Random(seed)", "        self.rng = random.Random(seed)\n        if seed is not None:\n            random.seed(seed)")
mutant("c19-one-global-draw", "C19", "R19.c", GEN,
       "        machine_id = self.rng.choice(available_machines)", "        import random\n        machine_id = random.choice(available_machines)",
       "seeded C19-s2 shape: one helper left on the global RNG")
mutant("c19-rng-unseeded", "C19", "R19.c", IGEN,
       "        self.rng = random.Random(seed)", "        self.rng = random.Random()")
mutant("c19-counter-reset", "C19", "R19.d", IGEN,
       "        self._current_iteration = 0\n        return self", "        self._current_iteration = 0\n        self._counter = 0\n        return self",
       "seeded C19-s1: names restart on a second pass")
mutant("c19-name-no-counter", "C19", "R19.d", IGEN,
       "        return f\"{self.name_suffix}_{self._counter}\"", "        return f\"{self.name_suffix}_{self._current_iteration}\"")
mutant("c19-next-off-by-one", "C19", "R19.e", IGEN,
       "            and self._current_iteration >= self._iteration_limit", "            and self._current_iteration > self._iteration_limit")
mutant("c19-iter-no-restart", "C19", "R19.e", IGEN,
       "        self._current_iteration = 0\n        return self", "        return self")
mutant("c19-pool-not-reset", "C19", "R19.f", GEN,
       "            jobs.append(job)\n            available_machines = list(range(num_machines))", "            jobs.append(job)")
mutant("c19-no-remove", "C19", "R19.f", GEN,
       "        if not self.allow_recirculation:\n            available_machines.remove(machine_id)", "        if self.allow_recirculation:\n            available_machines.remove(machine_id)")
mutant("c19-ops-per-job", "C19", "R19.g", GEN,
       "            for _ in range(num_machines):\n                operation = self.create_random_operation(available_machines)",
       "            for _ in range(len(available_machines) - 1):\n                operation = self.create_random_operation(available_machines)")
mutant("c19-duration-range", "C19", "R19.g", GEN,
       "        duration = self.rng.randint(*self.duration_range)", "        duration = self.rng.randint(1, self.duration_range[1])")
refactor("c19-r-inline-cap", "C19", GEN,
         "            num_machines = self.rng.randint(min_num_machines, max_num_machines)",
         "            num_machines = self.rng.randint(min_num_machines, max_num_machines)\n            assert num_machines >= 0")

# ------------------------------------------------------------------ C14
ORT = "job_shop_lib/constraint_programming/_ortools_solver.py"
GRAPH = "job_shop_lib/graphs/_job_shop_graph.py"
mutant("c14-features-view", "C14", "R14.a", DUR,
       "        operation_durations = np.array(duration_matrix).reshape(-1, 1)", "        operation_durations = duration_matrix.reshape(-1, 1)",
       "feature table becomes a view of the cached float matrix")
mutant("c14-sort-machines", "C14", "R14.a", DISP,
       "        machine_earliest_start_time = min(", "        operation.machines.sort()\n        machine_earliest_start_time = min(",
       "a query normalises the operation's machine list in place")
mutant("c14-pop-jobs", "C14", "R14.a", RSOL,
       "        selected_operation = self.dispatching_rule(dispatcher)", "        dispatcher.instance.jobs[0].reverse()\n        selected_operation = self.dispatching_rule(dispatcher)")
mutant("c14-loads-inplace", "C14", "R14.a", DUR,
       "        machine_durations = self.dispatcher.instance.machine_loads\n",
       "        machine_durations = self.dispatcher.instance.machine_loads\n        machine_durations.append(0)\n")
mutant("c14-set-duration", "C14", "R14.a", ORT,
       "                self._operations_start[operation] = (start_var, end_var)", "                operation.duration = int(operation.duration)\n                self._operations_start[operation] = (start_var, end_var)")
mutant("c14-alias-then-write", "C14", "R14.a", GRAPH,
       "            for machine_id in operation.machines:\n                self._nodes_by_machine[machine_id].append(node_for_adding)",
       "            machines = operation.machines\n            machines.sort()\n            for machine_id in machines:\n                self._nodes_by_machine[machine_id].append(node_for_adding)")
mutant("c14-pad-rows-inplace", "C14", "R14.a", INST,
       "        for i, row in enumerate(matrix):\n            squared_matrix[i, : len(row)] = row\n        return squared_matrix\n\n    @staticmethod\n    def _fill_matrix_with_nans_3d",
       "        for i, row in enumerate(matrix):\n            row += [0] * (max_length - len(row))\n            squared_matrix[i, : len(row)] = row\n        return squared_matrix\n\n    @staticmethod\n    def _fill_matrix_with_nans_3d",
       "seeded C14-s3 shape: cached list rows padded in place")
mutant("c14-todict-key", "C14", "R14.b", INST,
       "            \"duration_matrix\": self.durations_matrix,\n            \"machines_matrix\": self.machines_matrix,\n            \"metadata\": self.metadata,\n        }\n\n    @classmethod",
       "            \"durations_matrix\": self.durations_matrix,\n            \"machines_matrix\": self.machines_matrix,\n            \"metadata\": self.metadata,\n        }\n\n    @classmethod")
mutant("c14-no-progress-check", "C14", "R14.c", SCH,
       "            if not at_least_one_operation_scheduled:\n                raise ValidationError(\n                    \"Invalid job sequences. No valid operation to schedule.\"\n                )\n", "")
mutant("c14-flag-always", "C14", "R14.c", SCH,
       "            at_least_one_operation_scheduled = False\n", "            at_least_one_operation_scheduled = True\n")
mutant("c14-id-first-inc", "C14", "R14.d", INST,
       "                operation.operation_id = operation_id\n                operation_id += 1", "                operation_id += 1\n                operation.operation_id = operation_id")
refactor("c14-r-copy-loads", "C14", DUR,
         "        machine_durations = self.dispatcher.instance.machine_loads\n",
         "        machine_durations = list(self.dispatcher.instance.machine_loads)\n        machine_durations.append(0)\n        machine_durations.pop()\n")

# ------------------------------------------------------------------ C03
mutant("c03-sort-start-only", "C03", "R03.d", ORT,
       "            sorted(\n                scheduled_operation, key=lambda x: (x.start_time, x.end_time)\n            )",
       "            sorted(scheduled_operation, key=lambda x: x.start_time)", "the original defect D12")
mutant("c03-model-in-init-only", "C03", "R03.a", ORT,
       "        self.model = cp_model.CpModel()\n        self.solver = cp_model.CpSolver()\n        self.solver.parameters.log_search_progress",
       "        self.solver = cp_model.CpSolver()\n        self.solver.parameters.log_search_progress",
       "constraints of an earlier solve accumulate in the reused model")
mutant("c03-table-not-cleared", "C03", "R03.a", ORT,
       "        self._operations_start = {}\n        if self.max_time_in_seconds is not None:", "        if self.max_time_in_seconds is not None:",
       "stale start variables of a previous (larger) instance enter the max-equality")
mutant("c03-no-objective", "C03", "R03.b", ORT,
       "        self.model.Minimize(self._makespan)", "        pass")
mutant("c03-precedence-from-2", "C03", "R03.b", ORT,
       "            for position in range(1, len(job)):", "            for position in range(2, len(job)):", "first pair of every job unconstrained")
mutant("c03-precedence-strict-start", "C03", "R03.b", ORT,
       "                    self._operations_start[job[position - 1]][1]\n                    <= self._operations_start[job[position]][0]",
       "                    self._operations_start[job[position - 1]][0]\n                    <= self._operations_start[job[position]][0]",
       "start <= start: operations of a job may overlap")
mutant("c03-makespan-starts", "C03", "R03.b", ORT,
       "        end_times = [end for _, end in self._operations_start.values()]", "        end_times = [start for start, _ in self._operations_start.values()]")
mutant("c03-feasible-rejected", "C03", "R03.c", ORT,
       "        if status not in {cp_model.OPTIMAL, cp_model.FEASIBLE}:", "        if status not in {cp_model.OPTIMAL}:")
mutant("c03-always-optimal", "C03", "R03.c", ORT,
       "            \"status\": \"optimal\" if status == cp_model.OPTIMAL else \"feasible\",", "            \"status\": \"optimal\" if status != cp_model.INFEASIBLE else \"feasible\",")
refactor("c03-r-sort-duration", "C03", ORT,
         "            sorted(\n                scheduled_operation, key=lambda x: (x.start_time, x.end_time)\n            )",
         "            sorted(\n                scheduled_operation, key=lambda x: (x.start_time, x.operation.duration)\n            )")

# ------------------------------------------------------------------ C13
mutant("c13-double-emit", "C13", "R13.a", REW,
       "        reward = last_makespan - self.current_makespan\n        self.rewards.append(reward)",
       "        reward = last_makespan - self.current_makespan\n        self.rewards.append(reward)\n        if reward < 0:\n            self.rewards.append(0)")
mutant("c13-skip-zero", "C13", "R13.a", REW,
       "        reward = -idle_time\n        self.rewards.append(reward)", "        reward = -idle_time\n        if reward:\n            self.rewards.append(reward)",
       "no reward emitted when the machine was not idle")
mutant("c13-sign", "C13", "R13.c", REW,
       "        reward = last_makespan - self.current_makespan", "        reward = self.current_makespan - last_makespan")
mutant("c13-start-time", "C13", "R13.c", REW,
       "            last_makespan, scheduled_operation.end_time\n", "            last_makespan, scheduled_operation.start_time\n")
mutant("c13-idle-not-negated", "C13", "R13.d", REW,
       "        reward = -idle_time\n", "        reward = idle_time\n")
mutant("c13-idle-other-machine", "C13", "R13.d", REW,
       "        machine_id = scheduled_operation.machine_id\n        machine_schedule", "        machine_id = scheduled_operation.operation.machines[0]\n        machine_schedule",
       "flexible operations: gap measured on the wrong machine")
mutant("c13-idle-last-is-self", "C13", "R13.d", REW,
       "        machine_schedule = self.dispatcher.schedule.schedule[machine_id][:-1]", "        machine_schedule = self.dispatcher.schedule.schedule[machine_id][:]",
       "compares the new operation with itself")
mutant("c13-step-previous-reward", "C13", "R13.b", ENV1,
       "        self.dispatcher.dispatch(operation, machine_id)\n\n        obs = self.get_observation()\n        reward = self.reward_function.last_reward",
       "        reward = self.reward_function.last_reward\n        self.dispatcher.dispatch(operation, machine_id)\n\n        obs = self.get_observation()")
mutant("c13-last-reward-first", "C13", "R13.a", REW,
       "        return self.rewards[-1] if self.rewards else 0", "        return self.rewards[0] if self.rewards else 0")
refactor("c13-r-inline", "C13", REW,
         "        reward = last_makespan - self.current_makespan\n        self.rewards.append(reward)",
         "        self.rewards.append(last_makespan - self.current_makespan)")

# ------------------------------------------------------------------ C16
BDG = "job_shop_lib/graphs/_build_disjunctive_graph.py"
BAT = "job_shop_lib/graphs/_build_agent_task_graph.py"
mutant("c16-one-direction", "C16", "R16.a", BAT,
       "            graph.add_edge(job_node, operation_node)\n            graph.add_edge(operation_node, job_node)", "            graph.add_edge(job_node, operation_node)")
mutant("c16-asym-type", "C16", "R16.a", BDG,
       "                node2,\n                node1,\n                type=EdgeType.DISJUNCTIVE,", "                node2,\n                node1,\n                type=EdgeType.CONJUNCTIVE,")
mutant("c16-conj-reversed", "C16", "R16.b", BDG,
       "                job_operations[i - 1],\n                job_operations[i],", "                job_operations[i],\n                job_operations[i - 1],")
mutant("c16-conj-skip-first", "C16", "R16.b", BDG,
       "        for i in range(1, len(job_operations)):", "        for i in range(2, len(job_operations)):")
mutant("c16-solved-all-pairs", "C16", "R16.c", BDG,
       "    graph = JobShopGraph(schedule.instance)\n    add_conjunctive_edges(graph)", "    graph = JobShopGraph(schedule.instance)\n    add_disjunctive_edges(graph)\n    add_conjunctive_edges(graph)",
       "the solved graph keeps all-pairs disjunctive edges: cyclic")
mutant("c16-complete-mm", "C16", "R16.c", BAT,
       "    add_job_nodes(graph)\n    add_operation_job_edges(graph)\n\n    add_global_node(graph)", "    add_machine_machine_edges(graph)\n    add_job_nodes(graph)\n    add_operation_job_edges(graph)\n\n    add_global_node(graph)")
mutant("c16-missing-samejob", "C16", "R16.c", BAT,
       "    add_machine_machine_edges(graph)\n\n    add_same_job_operations_edges(graph)", "    add_machine_machine_edges(graph)")
mutant("c16-counter-from-1", "C16", "R16.d", GRAPH,
       "        self._next_node_id = 0", "        self._next_node_id = 1")
mutant("c16-first-machine-index", "C16", "R16.d", GRAPH,
       "            for machine_id in operation.machines:\n                self._nodes_by_machine[machine_id].append(node_for_adding)",
       "            self._nodes_by_machine[operation.machines[0]].append(node_for_adding)",
       "flexible operations indexed under their first machine only")
mutant("c16-mm-partial", "C16", "R16.e", BAT,
       "        graph.nodes_by_type[NodeType.MACHINE], 2\n    ):\n        graph.add_edge(machine1, machine2)",
       "        graph.nodes_by_type[NodeType.MACHINE][1:], 2\n    ):\n        graph.add_edge(machine1, machine2)")
mutant("c16-solved-skip-last", "C16", "R16.e", BDG,
       "            if i + 1 >= len(machine_schedule):", "            if i + 2 >= len(machine_schedule):")
mutant("c16-solved-by-job", "C16", "R16.e", BDG,
       "                scheduled_operation.operation.operation_id,\n                next_scheduled_operation.operation.operation_id,",
       "                scheduled_operation.operation.job_id,\n                next_scheduled_operation.operation.job_id,")
refactor("c16-r-zip", "C16", BDG,
         """        for i, scheduled_operation in enumerate(machine_schedule):
            if i + 1 >= len(machine_schedule):
                break
            next_scheduled_operation = machine_schedule[i + 1]
            graph.add_edge(""",
         """        for scheduled_operation, next_scheduled_operation in zip(machine_schedule, machine_schedule[1:]):
            graph.add_edge(""")

# ------------------------------------------------------------------ C17
RGU = "job_shop_lib/graphs/graph_updaters/_residual_graph_updater.py"
GUT = "job_shop_lib/graphs/graph_updaters/_utils.py"
_v("c17-updater-late-acquire", "C17", "mutant", "R17.b", [
    (RGU, "        self._initialize_is_completed_observer_attribute(dispatcher)\n\n        # It is important", "        # It is important"),
    (RGU, "            subscribe=subscribe,\n        )\n\n    def _initialize_is_completed_observer_attribute", "            subscribe=subscribe,\n        )\n        self._initialize_is_completed_observer_attribute(dispatcher)\n\n    def _initialize_is_completed_observer_attribute"),
], "updater notified before IsCompletedObserver: machine/job nodes removed one dispatch late")
mutant("c17-remove-scheduled", "C17", "R17.c", RGU,
       "            completed_operations=self.dispatcher.completed_operations(),", "            completed_operations=self.dispatcher.scheduled_operations(),",
       "nodes of running operations disappear")
mutant("c17-no-skip-removed", "C17", "R17.c", GUT,
       "        if job_shop_graph.removed_nodes[node_id]:\n            continue\n", "")
mutant("c17-foreign-removal", "C17", "R17.a", GUT,
       "        job_shop_graph.remove_node(node_id)", "        job_shop_graph.graph.remove_node(node_id)",
       "graph changes without the mask")
mutant("c17-unremove", "C17", "R17.a", GRAPH,
       "        self.graph.add_edge(u_of_edge, v_of_edge, **attr)", "        self.removed_nodes[u_of_edge] = False\n        self.graph.add_edge(u_of_edge, v_of_edge, **attr)")
mutant("c17-mask-not-flipped", "C17", "R17.a", GRAPH,
       "        self.graph.remove_node(node_id)\n        self.removed_nodes[node_id] = True", "        self.graph.remove_node(node_id)")
mutant("c17-out-degree", "C17", "R17.a", GRAPH,
       "        isolated_nodes = list(nx.isolates(self.graph))", "        isolated_nodes = [n for n in self.graph if self.graph.out_degree(n) == 0]",
       "seeded C17-s1 shape")
mutant("c17-machine-flag-ignored", "C17", "R17.c", RGU,
       "            if is_completed == 1 and not self.job_shop_graph.is_removed(\n                machine_node := self.job_shop_graph.get_machine_node(",
       "            if not self.job_shop_graph.is_removed(\n                machine_node := self.job_shop_graph.get_machine_node(")
refactor("c17-r-isremoved", "C17", GUT,
         "        if job_shop_graph.removed_nodes[node_id]:\n            continue\n", "        if job_shop_graph.is_removed(node_id):\n            continue\n")

# ------------------------------------------------------------------ C20
PGC = "job_shop_lib/visualization/_plot_gantt_chart.py"
GCC = "job_shop_lib/visualization/_gantt_chart_creator.py"
mutant("c20-lexicographic", "C20", "R20.a", GIF,
       "        for frame in sorted(os.listdir(frames_dir), key=_frame_number)", "        for frame in sorted(os.listdir(frames_dir))", "the original defect D11")
mutant("c20-unsorted", "C20", "R20.a", GIF,
       "        for frame in sorted(os.listdir(frames_dir), key=_frame_number)", "        for frame in os.listdir(frames_dir)")
mutant("c20-skip-zero-width", "C20", "R20.b", PGC,
       "            _plot_scheduled_operation(\n                ax, scheduled_op, y_position_for_machines, color\n            )",
       "            if scheduled_op.operation.duration:\n                _plot_scheduled_operation(\n                    ax, scheduled_op, y_position_for_machines, color\n                )",
       "zero-duration operations get no bar")
mutant("c20-duration-as-end", "C20", "R20.b", PGC,
       "    duration = end_time - start_time\n", "    duration = end_time\n")
mutant("c20-frame-from-zero", "C20", "R20.c", GIF,
       "    for i, scheduled_operation in enumerate(schedule_history, start=1):", "    for i, scheduled_operation in enumerate(schedule_history):")
mutant("c20-plot-before-dispatch", "C20", "R20.c", GIF,
       """        dispatcher.dispatch(
            scheduled_operation.operation, scheduled_operation.machine_id
        )
        current_time = (
            None if not plot_current_time else dispatcher.current_time()
        )
        fig = plot_function(
            dispatcher.schedule,
            makespan,
            dispatcher.available_operations(),
            current_time,
        )""",
       """        current_time = (
            None if not plot_current_time else dispatcher.current_time()
        )
        fig = plot_function(
            dispatcher.schedule,
            makespan,
            dispatcher.available_operations(),
            current_time,
        )
        dispatcher.dispatch(
            scheduled_operation.operation, scheduled_operation.machine_id
        )""")
mutant("c20-xlim-makespan-always", "C20", "R20.e", PGC,
       "    xlim = xlim if xlim is not None else makespan", "    xlim = makespan")
refactor("c20-r-key-lambda", "C20", GIF,
         "        for frame in sorted(os.listdir(frames_dir), key=_frame_number)",
         "        for frame in sorted(os.listdir(frames_dir), key=lambda f: int(f.split('_')[-1].split('.')[0]))")

# ------------------------------------------------------------------ C11
COMP = "job_shop_lib/dispatching/feature_observers/_composite_feature_observer.py"
FFAC = "job_shop_lib/dispatching/feature_observers/_factory.py"
ISS = "job_shop_lib/dispatching/feature_observers/_is_scheduled_observer.py"
mutant("c11-axis0", "C11", "R11.a", COMP,
       "            feature_type: np.concatenate(features, axis=1)", "            feature_type: np.concatenate(features, axis=0)")
mutant("c11-names-reversed", "C11", "R11.a", COMP,
       "    def _set_column_names(self):\n        for observer in self.feature_observers:", "    def _set_column_names(self):\n        for observer in reversed(self.feature_observers):")
mutant("c11-registry-swap", "C11", "R11.c", FFAC,
       "        FeatureObserverType.IS_SCHEDULED: IsScheduledObserver,", "        FeatureObserverType.IS_SCHEDULED: IsCompletedObserver,")
mutant("c11-operation-machine-id", "C11", "R11.d", REM,
       "                self.features[FeatureType.MACHINES][operation.machines, 0] += 1", "                self.features[FeatureType.MACHINES][operation.machine_id, 0] += 1")
mutant("c12-isscheduled-no-zero-ops", "C12", "R12.a", ISS,
       "    def update(self, scheduled_operation: ScheduledOperation):",
       "    def reset(self):\n        self.set_features_to_zero(exclude=FeatureType.OPERATIONS)\n\n    def update(self, scheduled_operation: ScheduledOperation):",
       "seeded C11-s3 shape: the scheduled flags survive a reset")

mutant("c09-falsy-machine", "C09", "R09.e", DISP,
       "        if machine_id is None:\n            machine_id = operation.machine_id", "        if not machine_id:\n            machine_id = operation.machine_id",
       "machine 0 treated as 'not given'")
mutant("c09-falsy-job-in-env", "C09", "R09.f", ENV1,
       "        operation = self.dispatcher.next_operation(job_id)", "        operation = self.dispatcher.next_operation(job_id if job_id else 0)")


# ------------------------------------------------------------------ renames of private names
# (anchors are found by role, not by private name)
_ORT = "job_shop_lib/constraint_programming/_ortools_solver.py"
rename("c03-r-rename-private", "C03", [
    (_ORT, "_operations_start", "_vars"), (_ORT, "_makespan", "_objective_var"),
    (_ORT, "_create_schedule", "_rebuild_schedule"), (_ORT, "_initialize_model", "_fresh_model"),
    (_ORT, "_create_variables", "_make_vars"), (_ORT, "_add_constraints", "_constrain"),
    (_ORT, "_set_objective", "_objective"),
])
rename("c18-r-rename-private", "C18", [
    (ENV1, "_get_observation_space", "_build_observation_space"), (ENV1, "_get_edge_index", "_edge_index_array"),
    (ENVM, "_add_padding_to_observation", "_pad_observation"),
])
rename("c19-r-rename-private", "C19", [
    (IGEN, "_counter", "_names_issued"), (IGEN, "_current_iteration", "_yielded"), (IGEN, "_iteration_limit", "_max_instances"),
    (IGEN, "_next_name", "_fresh_name"), (GEN, "_next_name", "_fresh_name"),
    (GEN, "_choose_one_machine", "_pick_machine"), (GEN, "_choose_multiple_machines", "_pick_machines"),
])
rename("c20-r-rename-private", "C20", [
    (GIF, "_save_frame", "_write_frame"), (GIF, "_load_images", "_read_frames"), (GIF, "_frame_number", "_index_of"),
    (PGC, "_plot_machine_schedules", "_draw_machines"), (PGC, "_plot_scheduled_operation", "_draw_bar"),
    (PGC, "_configure_axes", "_setup_axes"), (PGC, "_configure_legend", "_setup_legend"), (PGC, "_get_job_label", "_label_of"),
])

# ------------------------------------------------------------------ round-3 additions
refactor("c15-r-len-guards-zip", "C15", SCH,
         "        return self.schedule == value.schedule",
         "        if len(self.schedule) != len(value.schedule):\n            return False\n"
         "        if self.num_scheduled_operations != value.num_scheduled_operations:\n            return False\n"
         "        return all(a == b for a, b in zip(self.schedule, value.schedule))",
         "length guard + zip over the machine lists, inner lists compared with list ==")
mutant("c15-zip-truncates", "C15", "R15.a", SCH,
       "        return self.schedule == value.schedule",
       "        if len(self.schedule) != len(value.schedule):\n            return False\n"
       "        return all(x == y for a, b in zip(self.schedule, value.schedule) for x, y in zip(a, b))",
       "round-3 seed C15-u1VF: inner zip truncates")
mutant("c12-sched-reset-shortcut", "C12", "R12.c", SCH,
       '        """Resets the schedule to an empty state."""\n        self.schedule = [[]',
       '        """Resets the schedule to an empty state."""\n        if self.makespan() == 0:\n            return\n        self.schedule = [[]',
       "round-3 seed C02-u2VB: 'already empty' shortcut that is wrong for zero durations")
mutant("c12-makespan-reward-shortcut", "C12", "R12.a", REW,
       "        super().reset()\n        self.current_makespan = self.dispatcher.schedule.makespan()",
       "        super().reset()\n        if self.dispatcher.schedule.is_complete():\n            return\n        self.current_makespan = self.dispatcher.schedule.makespan()",
       "an early return in an observer's reset skips an attribute update() advances")
mutant("c11-est-regular-flag", "C11", "R11.e", EST,
       "        ) and all(\n            len(machine_ops) == len(operations_by_machine[0])\n            for machine_ops in operations_by_machine\n        )\n",
       "        )\n",
       "the original defect D13: rectangularity flag on job lengths only")
rename("c02-r-rename-tracking", "C02", [
    (DISP, "_machine_next_available_time", "_machine_free_at"), (DISP, "_job_next_operation_index", "_job_cursor"),
    (DISP, "_job_next_available_time", "_job_free_at"), (DISP, "_update_tracking_attributes", "_advance_tracking"),
    (DISP, "_cache", "_memo"), (DISP, "_dispatcher_cache", "_memoised"),
])


# ------------------------------------------------------------------ on top of re-architected trees
# Mutations of stored refactor patches that bundle private state in a private
# dataclass: they are only analysable after scalar replacement of the
# aggregate (unbundle.py), so they test that pass and the rules behind it.
# kind "refusal": no verdict is acceptable (exit 0 or 2), a VIOLATION is not.
GEN = "job_shop_lib/generation/_instance_generator.py"
JSG = "job_shop_lib/graphs/_job_shop_graph.py"
ORT = "job_shop_lib/constraint_programming/_ortools_solver.py"
_v("c02-sroa-advance-skips-job-free", "C02", "mutant", None,
   [(DISP, "        self.job_next_available_time[job_id] = end_time\n", "")],
   "YA1 + the bundle's advance() forgets the job's next available time", base="YA1")
_v("c12-sroa-reset-keeps-progress", "C12", "mutant", None,
   [(DISP, "        self.schedule.reset()\n        self._progress = _Progress.initial(self.instance)\n", "        self.schedule.reset()\n")],
   "YA1 + reset() no longer rebuilds the bundled tracking state", base="YA1")
_v("c05-sroa-advance-no-clear", "C05", "mutant", "R05.a",
   [(DISP, "        self._progress.advance(scheduled_operation)\n        self._cache = {}", "        self._progress.advance(scheduled_operation)")],
   "YA1 + the cache clear after the bundled update is dropped", base="YA1")
_v("c19-sroa-limit-strict", "C19", "mutant", "R19.e",
   [(GEN, "and self.iterations_done >= self.iteration_limit", "and self.iterations_done > self.iteration_limit")],
   "YE2 + strict comparison inside the bundle's limit_reached()", base="YE2")
_v("c16-sroa-id-only-for-operations", "C16", "mutant", None,
   [(JSG, "        self.nodes.append(node)\n        self.next_node_id += 1\n", "        self.nodes.append(node)\n"),
    (JSG, "        self.by_job[operation.job_id].append(node)\n", "        self.by_job[operation.job_id].append(node)\n        self.next_node_id += 1\n")],
   "YD5 + only operation nodes consume a node id", base="YD5")
_v("c03-sroa-table-not-dropped", "C03", "mutant", None,
   [(ORT, "        self._variables.operations = {}\n", "")],
   "YF3 + the variable table survives from one solve to the next", base="YF3")
_v("c02-sroa-escape-refused", "C02", "refusal", None,
   [(DISP, "    def reset(self) -> None:\n", "    def _snapshot(self):\n        return self._progress\n\n    def reset(self) -> None:\n")],
   "YA1 + the bundle escapes through a method: the aggregate is kept and the check may only refuse", base="YA1")
_v("c12-sroa-escape-refused", "C12", "refusal", None,
   [(DISP, "    def reset(self) -> None:\n", "    def _snapshot(self):\n        return self._progress\n\n    def reset(self) -> None:\n")],
   "as above for the reset check", base="YA1")

# ------------------------------------------------------------------ round-5 seeds distilled
refactor("c03-r-nooverlap-min2", "C03", ORT,
         "            self.model.AddNoOverlap(intervals)",
         "            if len(intervals) >= 2:\n                self.model.AddNoOverlap(intervals)",
         "no-overlap over fewer than two intervals is vacuous: skipping it changes nothing")
refactor("c03-r-nooverlap-continue", "C03", ORT,
         "            self.model.AddNoOverlap(intervals)",
         "            if len(intervals) < 2:\n                continue\n            self.model.AddNoOverlap(intervals)")
mutant("c03-zero-duration-no-interval", "C03", "R03.b", ORT,
       "            for (start_var, end_var), duration in operations:\n                interval_var",
       "            for (start_var, end_var), duration in operations:\n                if duration == 0:\n                    continue\n                interval_var",
       "round-5 seed C03-w2ZI: zero-length intervals still may not lie strictly inside another interval")
mutant("c12-bound-method-alias", "C12", "R12.f", HIST,
       "        self.history: list[ScheduledOperation] = []",
       "        self.history: list[ScheduledOperation] = []\n        self.update = self.history.append  # type: ignore[method-assign]",
       "round-5 seed C10-w2ZF: update bound to the first episode's list")

# positive controls of the "mutable default argument" rules (expected count on the tree: 0)
RULESF = "job_shop_lib/dispatching/rules/_dispatching_rules_functions.py"
GIFF = "job_shop_lib/visualization/_gantt_chart_video_and_gif_creation.py"
GGEN = "job_shop_lib/generation/_general_instance_generator.py"
mutant("c07-mutable-default", "C07", "R07.h", FILT,
       "def filter_non_idle_machines(\n    dispatcher: Dispatcher, operations: list[Operation]\n) -> list[Operation]:",
       "def filter_non_idle_machines(\n    dispatcher: Dispatcher, operations: list[Operation], _seen: list = []\n) -> list[Operation]:\n    _seen.extend(operations)",
       "a default list that collects what every call saw")
mutant("c04-mutable-default", "C04", "R04.h", RULESF,
       "def most_work_remaining_rule(dispatcher: Dispatcher) -> Operation:\n    \"\"\"Dispatches the operation which job has the most remaining work.\"\"\"\n    job_remaining_work = [0] * dispatcher.instance.num_jobs",
       "def most_work_remaining_rule(dispatcher: Dispatcher, _work: dict = {}) -> Operation:\n    \"\"\"Dispatches the operation which job has the most remaining work.\"\"\"\n    _work[dispatcher.instance.name] = 0\n    job_remaining_work = [0] * dispatcher.instance.num_jobs")
mutant("c20-mutable-default", "C20", "R20.f", GIFF,
       "    plot_current_time: bool = True,\n    schedule_history: Sequence[ScheduledOperation] | None = None,\n) -> None:\n    \"\"\"Creates frames of the Gantt chart for the schedule being built.",
       "    plot_current_time: bool = True,\n    schedule_history: Sequence[ScheduledOperation] | None = None,\n    _dirs: list = [],\n) -> None:\n    \"\"\"Creates frames of the Gantt chart for the schedule being built.\n    \"\"\"\n    _dirs.append(frames_dir)\n    \"\"\"")
mutant("c19-mutable-default", "C19", "R19.j", GGEN,
       "    def generate(\n        self, num_jobs: int | None = None, num_machines: int | None = None\n    ) -> JobShopInstance:\n        if num_jobs is None:",
       "    def generate(\n        self, num_jobs: int | None = None, num_machines: int | None = None, _sizes: list = []\n    ) -> JobShopInstance:\n        _sizes += [num_jobs]\n        if num_jobs is None:")
mutant("c03-mutable-default", "C03", "R03.e", ORT,
       "    def solve(self, instance: JobShopInstance) -> Schedule:",
       "    def solve(self, instance: JobShopInstance, _solved: set = set()) -> Schedule:\n        _solved.add(instance.name)")

# positive controls of the generic zero-expected rules added in round 6 (seeds) / 7 (refactors)
BDG = "job_shop_lib/graphs/_build_disjunctive_graph.py"
FACTF = "job_shop_lib/dispatching/_factories.py"
mutant("c04-loop-var-after-loop", "C04", "R04.i", RULESF,
       "    for operation in dispatcher.unscheduled_operations():\n        job_remaining_work[operation.job_id] += operation.duration\n\n    return max(",
       "    for operation in dispatcher.unscheduled_operations():\n        pass\n    job_remaining_work[operation.job_id] += operation.duration\n\n    return max(",
       "the accumulation slipped out of its loop: only the last operation counts")
mutant("c07-loop-var-after-loop", "C07", "R07.i", FILT,
       "            continue\n        filtered_operations.append(operation)\n\n    return filtered_operations",
       "            continue\n    filtered_operations.append(operation)\n\n    return filtered_operations",
       "append left one level too shallow")
mutant("c16-loop-var-after-loop", "C16", "R16.i", BDG,
       "            graph.add_edge(\n                node2,\n                node1,\n                type=EdgeType.DISJUNCTIVE,\n            )",
       "            pass\n        graph.add_edge(\n            node2,\n            node1,\n            type=EdgeType.DISJUNCTIVE,\n        )",
       "the reverse edge is added once per machine, for the last pair only")
mutant("c11-str-enum-identity", "C11", "R11.g", "job_shop_lib/dispatching/feature_observers/_feature_observer.py",
       "        if isinstance(exclude, FeatureType):", "        if exclude is FeatureType.JOBS or isinstance(exclude, FeatureType):")
refactor("c15-r-weak-disjunctive-precheck", "C15", INST,
         "        return self.jobs == other.jobs",
         "        if self.num_operations > 0 and not (self.num_jobs == other.num_jobs):\n            return False\n        return self.jobs == other.jobs",
         "an extra conjunct that is itself a disjunction covers nothing and harms nothing")
mutant("c15-nan-padded-array-equal", "C15", "R15.a", INST,
       "        return self.jobs == other.jobs",
       "        if not np.array_equal(self.durations_matrix_array, other.durations_matrix_array):\n            return False\n        return self.jobs == other.jobs",
       "NaN-padded view compared without equal_nan: equal ragged instances compare unequal")

# ------------------------------------------------------------------ round-8 seeds distilled (both ways)
_D_INIT = "        self._cache: dict[str, Any] = {}\n"
_D_UPD = "        self._job_next_available_time[job_id] = end_time\n        self._cache = {}\n"
_v("c14-field-aliases-cached-view", "C14", "mutant", "R14.a", [
    (DISP, _D_INIT, "        self._job_remaining_work = self.instance.job_durations\n" + _D_INIT),
    (DISP, _D_UPD, "        self._job_next_available_time[job_id] = end_time\n        self._job_remaining_work[job_id] -= scheduled_operation.operation.duration\n        self._cache = {}\n"),
], "round-8 seed C04-z1KC: a tracking vector bound to the instance's cached view in one method, decremented in another")
_v("c14-r-field-copies-cached-view", "C14", "refactor", None, [
    (DISP, _D_INIT, "        self._job_remaining_work = list(self.instance.job_durations)\n" + _D_INIT),
    (DISP, _D_UPD, "        self._job_next_available_time[job_id] = end_time\n        self._job_remaining_work[job_id] -= scheduled_operation.operation.duration\n        self._cache = {}\n"),
], "the same counter over a copy touches nothing of the instance")

_ORT_INIT = "        self._operations_start: dict[Operation, tuple[IntVar, IntVar]] = {}\n\n"
_ORT_RET = "        return self._create_schedule(instance, metadata)\n"
_ORT_SCH = "        return Schedule(\n            instance=instance, schedule=sorted_schedule, **metadata\n        )\n"
_v("c03-shared-run-report", "C03", "mutant", "R03.g", [
    (ORT, _ORT_INIT, "        self._operations_start: dict[Operation, tuple[IntVar, IntVar]] = {}\n        self.last_run: dict[str, Any] = {}\n\n"),
    (ORT, _ORT_RET, "        self.last_run.update(metadata)\n        return self._create_schedule(instance, self.last_run)\n"),
    (ORT, _ORT_SCH, "        result = Schedule(instance=instance, schedule=sorted_schedule)\n        result.metadata = metadata\n        return result\n"),
], "round-8 seed C03-z1KI: the report dict of the solver is updated in place by every solve and stored uncopied in each schedule")
_v("c03-r-run-report-rebound", "C03", "refactor", None, [
    (ORT, _ORT_INIT, "        self._operations_start: dict[Operation, tuple[IntVar, IntVar]] = {}\n        self.last_run: dict[str, Any] = {}\n\n"),
    (ORT, _ORT_RET, "        self.last_run = metadata\n        return self._create_schedule(instance, self.last_run)\n"),
    (ORT, _ORT_SCH, "        result = Schedule(instance=instance, schedule=sorted_schedule)\n        result.metadata = metadata\n        return result\n"),
], "a fresh dict per solve, merely also remembered by the solver: earlier schedules keep theirs")
_v("c03-narrowed-domains-refused", "C03", "refusal", None, [
    (ORT, "0, instance.total_duration, f\"start_{operation}\"", "0, instance.total_duration - operation.duration, f\"start_{operation}\""),
], "a domain other than [0, total duration] may or may not cut off the optimum: no verdict, never a silent pass is required - but no VIOLATION either")

_v("c07-new-query-uses-global-ready-list", "C07", "mutant", "R07.g", [
    (DISP, "    def subscribe(self, observer: DispatcherObserver):", "    def busy_machines(self) -> set[int]:\n        current_time = self.min_start_time(self.raw_ready_operations())\n        busy = set()\n        for machine_schedule in self.schedule.schedule:\n            for scheduled_operation in reversed(machine_schedule):\n                if scheduled_operation.end_time <= current_time:\n                    break\n                busy.add(scheduled_operation.machine_id)\n        return busy\n\n    def subscribe(self, observer: DispatcherObserver):"),
    (FILT, "    current_time = dispatcher.min_start_time(operations)\n    non_idle_machines = _get_non_idle_machines(dispatcher, current_time)\n", "    non_idle_machines = dispatcher.busy_machines()\n"),
], "round-8 seed C07-z2KC: a new zero-argument query cannot know the list the filter was given")
_v("c07-r-new-query-takes-the-list", "C07", "refactor", None, [
    (DISP, "    def subscribe(self, observer: DispatcherObserver):", "    def busy_machines(self, operations) -> set[int]:\n        current_time = self.min_start_time(operations)\n        busy = set()\n        for machine_schedule in self.schedule.schedule:\n            for scheduled_operation in reversed(machine_schedule):\n                if scheduled_operation.end_time <= current_time:\n                    break\n                busy.add(scheduled_operation.machine_id)\n        return busy\n\n    def subscribe(self, observer: DispatcherObserver):"),
    (FILT, "    current_time = dispatcher.min_start_time(operations)\n    non_idle_machines = _get_non_idle_machines(dispatcher, current_time)\n", "    non_idle_machines = dispatcher.busy_machines(operations)\n"),
], "the same query with the list as argument")

_TL_OLD = "        first_non_comment_line_reached = False\n        jobs = []\n        for line in lines:\n            line = line.strip()\n            if line.startswith(comment_symbol):\n                continue\n            if not first_non_comment_line_reached:\n                first_non_comment_line_reached = True\n                continue\n\n            row = list(map(int, line.split()))\n            pairs = zip(row[::2], row[1::2])\n            operations = [\n                Operation(machines=machine_id, duration=duration)\n                for machine_id, duration in pairs\n            ]\n            jobs.append(operations)\n"
_v("c14-taillard-fixed-row-length", "C14", "mutant", "R14.j", [
    (INST, _TL_OLD, "        numbers: list[int] = []\n        for line in lines:\n            line = line.strip()\n            if not line or line.startswith(comment_symbol):\n                continue\n            numbers.extend(map(int, line.split()))\n        num_jobs, num_machines = numbers[:2]\n        body = numbers[2:]\n        width = 2 * num_machines\n        jobs = []\n        for job_id in range(num_jobs):\n            row = body[job_id * width : (job_id + 1) * width]\n            jobs.append([Operation(machines=m, duration=d) for m, d in zip(row[::2], row[1::2])])\n"),
], "round-8 seed C14-z2KF: rows cut out of the pooled numbers with the header's sizes")
_v("c14-r-taillard-comprehension", "C14", "refactor", None, [
    (INST, _TL_OLD, "        data = [ln.strip() for ln in lines if not ln.strip().startswith(comment_symbol)]\n        jobs = []\n        for text_line in data[1:]:\n            row = [int(tok) for tok in text_line.split()]\n            jobs.append([Operation(machines=m, duration=d) for m, d in zip(row[::2], row[1::2])])\n"),
], "still one job per line")

_v("c11-job-total-over-operations-by-machine", "C11", "mutant", "R11.i", [
    (DUR, "        job_durations = self.dispatcher.instance.job_durations\n        for job_id, job_duration in enumerate(job_durations):\n            self.features[FeatureType.JOBS][job_id, 0] = job_duration\n",
     "        self.features[FeatureType.JOBS][:, 0] = 0\n        for operations in self.dispatcher.instance.operations_by_machine:\n            for operation in operations:\n                self.features[FeatureType.JOBS][operation.job_id, 0] += operation.duration\n"),
], "round-8 seed C11-z2KH: a flexible operation is listed under each of its machines")
_v("c11-r-machine-total-over-operations-by-machine", "C11", "refactor", None, [
    (DUR, "        machine_durations = self.dispatcher.instance.machine_loads\n        for machine_id, machine_load in enumerate(machine_durations):\n            self.features[FeatureType.MACHINES][machine_id, 0] = machine_load\n",
     "        self.features[FeatureType.MACHINES][:, 0] = 0\n        for machine_id, operations in enumerate(self.dispatcher.instance.operations_by_machine):\n            for operation in operations:\n                self.features[FeatureType.MACHINES][machine_id, 0] += operation.duration\n"),
], "per-machine totals over the per-machine lists are machine_loads by definition")

_IDLE_UPD = "    def update(self, scheduled_operation: ScheduledOperation):\n        machine_id = scheduled_operation.machine_id\n        machine_schedule = self.dispatcher.schedule.schedule[machine_id][:-1]\n\n        if machine_schedule:\n            last_operation = machine_schedule[-1]\n            idle_time = (\n                scheduled_operation.start_time - last_operation.end_time\n            )\n        else:\n            idle_time = scheduled_operation.start_time\n\n        reward = -idle_time\n        self.rewards.append(reward)\n"
def _idle(guard):
    return (
        "    def __init__(self, dispatcher, *, subscribe=True):\n        super().__init__(dispatcher, subscribe=subscribe)\n"
        "        self._last_end = [0] * dispatcher.instance.num_machines\n        self._sync()\n\n"
        "    def reset(self) -> None:\n        super().reset()\n        self._sync()\n\n"
        "    def _sync(self) -> None:\n        for machine_id, machine_schedule in enumerate(self.dispatcher.schedule.schedule):\n"
        + guard +
        "            self._last_end[machine_id] = machine_schedule[-1].end_time if machine_schedule else 0\n\n"
        "    def update(self, scheduled_operation: ScheduledOperation):\n        machine_id = scheduled_operation.machine_id\n"
        "        idle_time = scheduled_operation.start_time - self._last_end[machine_id]\n"
        "        self._last_end[machine_id] = scheduled_operation.end_time\n        self.rewards.append(-idle_time)\n"
    )
_v("c12-entrywise-restore-skips-empty", "C12", "mutant", "R12.a", [(REW, _IDLE_UPD, _idle("            if not machine_schedule:\n                continue\n"))],
   "round-8 seed C13-z2KH: the entry-wise restore skips machines whose schedule is empty, i.e. all of them after a reset")
_v("c12-r-entrywise-restore-complete", "C12", "refactor", None, [(REW, _IDLE_UPD, _idle(""))], "every entry is overwritten on reset")

_GUP_RESET = "        self.job_shop_graph = deepcopy(self.initial_job_shop_graph)\n"
def _gup(mark):
    return [
        (GUP, "        self.job_shop_graph = job_shop_graph\n", "        self.job_shop_graph = job_shop_graph\n        self._is_modified = False\n"),
        (GUP, _GUP_RESET, "        if not self._is_modified:\n            return\n" + _GUP_RESET + "        self._is_modified = False\n"),
        (RGU, "        remove_completed_operations(\n            self.job_shop_graph,\n            completed_operations=self.dispatcher.completed_operations(),\n        )\n", mark),
    ]
_v("c12-reset-skipped-unless-flagged", "C12", "mutant", "R12.a", _gup(
    "        if self.dispatcher.completed_operations():\n            self._is_modified = True\n        remove_completed_operations(\n            self.job_shop_graph,\n            completed_operations=self.dispatcher.completed_operations(),\n        )\n"),
    "round-8 seed C12-z2KA: machine / job nodes are removed on paths that do not raise the flag")
_v("c12-r-reset-skipped-unless-flagged-always-raised", "C12", "refactor", None, _gup(
    "        self._is_modified = True\n        remove_completed_operations(\n            self.job_shop_graph,\n            completed_operations=self.dispatcher.completed_operations(),\n        )\n"),
    "the flag is raised on every path of update: skipping the copy is sound")

_v("c16-same-job-window", "C16", "mutant", "R16.e", [
    (BAT, "        for operation1, operation2 in itertools.combinations(job, 2):\n            graph.add_edge(operation1, operation2)\n            graph.add_edge(operation2, operation1)\n",
     "        reach = graph.instance.num_machines\n        for position, operation1 in enumerate(job):\n            for operation2 in itertools.islice(job, position + 1, position + 1 + reach):\n                graph.add_edge(operation1, operation2)\n                graph.add_edge(operation2, operation1)\n"),
], "round-8 seed C16-z2KE: a window whose width is not the length of the job")

# ------------------------------------------------------------------ round-9 seeds distilled (both ways)
_SC_INV = "            self._duration_observer = None\n            self._is_ready_observer = None\n            self._current_dispatcher = dispatcher\n"
mutant("c04-dispatcher-change-forgets-one-cache", "C04", "R04.l", RULES, _SC_INV,
       "            self._duration_observer = None\n            self._current_dispatcher = dispatcher\n",
       "round-8/9 seeds C04-z2KC, C04-p2HC: only one of the cached observers is dropped when the dispatcher changes")
refactor("c04-r-dispatcher-change-positive-test", "C04", RULES,
         "        if self._current_dispatcher is not dispatcher:\n" + _SC_INV,
         "        if self._current_dispatcher is dispatcher:\n            pass\n        else:\n" + _SC_INV,
         "the same invalidation under the complementary test")

mutant("c07-end-time-once-per-operation", "C07", "R07.f", FILT,
       "            start_time = dispatcher.start_time(op, machine_id)\n            end_times_per_machine[machine_id] = min(\n                end_times_per_machine[machine_id], start_time + op.duration\n            )\n",
       "            end_time = dispatcher.earliest_start_time(op) + op.duration\n            if end_time < end_times_per_machine[machine_id]:\n                end_times_per_machine[machine_id] = end_time\n",
       "round-9 seed C07-p2HC: the guard only compares with the entry it replaces; the value is the same for every machine")
refactor("c07-r-running-minimum-with-guard", "C07", FILT,
         "            end_times_per_machine[machine_id] = min(\n                end_times_per_machine[machine_id], start_time + op.duration\n            )\n",
         "            end_time = start_time + op.duration\n            if end_time < end_times_per_machine[machine_id]:\n                end_times_per_machine[machine_id] = end_time\n",
         "the running minimum spelt with a guard: the value still comes from this machine's start time")

mutant("c14-embedded-instance-name-not-read", "C14", "R14.b", SCH,
       "            instance = JobShopInstance.from_matrices(**instance)\n",
       "            instance = JobShopInstance.from_matrices(\n                duration_matrix=instance[\"duration_matrix\"],\n                machines_matrix=instance[\"machines_matrix\"],\n                metadata=instance.get(\"metadata\"),\n            )\n",
       "round-9 seed C14-p2HF: the schedule's dictionary round trip drops the instance name")
refactor("c14-r-embedded-instance-read-key-by-key", "C14", SCH,
         "            instance = JobShopInstance.from_matrices(**instance)\n",
         "            instance = JobShopInstance.from_matrices(\n                duration_matrix=instance[\"duration_matrix\"],\n                machines_matrix=instance[\"machines_matrix\"],\n                name=instance[\"name\"],\n                metadata=instance.get(\"metadata\"),\n            )\n",
         "every written key is read")

_SOP_EQ = "        return (\n            self.operation == value.operation\n            and self.start_time == value.start_time\n            and self.machine_id == value.machine_id\n        )\n"
mutant("c15-identity-shortcut-skips-machine", "C15", "R15.a", SOP, _SOP_EQ,
       "        if self.start_time != value.start_time:\n            return False\n        if self.operation is value.operation:\n            return True\n        return self.machine_id == value.machine_id and self.operation == value.operation\n",
       "round-9 seed C15-p1HF: same Operation object on both sides returns True before the machine is compared")
refactor("c15-r-identity-shortcut-after-machine", "C15", SOP, _SOP_EQ,
         "        if self.start_time != value.start_time:\n            return False\n        if self.machine_id != value.machine_id:\n            return False\n        if self.operation is value.operation:\n            return True\n        return self.operation == value.operation\n",
         "the same shortcut once every other field has been compared")
refactor("c15-r-table-driven-eq", "C15", SOP, _SOP_EQ,
         "        return all(getattr(self, name) == getattr(value, name) for name in (\"operation\", \"start_time\", \"machine_id\"))\n",
         "a table of attribute names: the conjunction spelt out by the normaliser")

_MULTI_ACT = "        self.action_space = deepcopy(\n            self.single_job_shop_graph_env.action_space\n        )\n"
mutant("c18-multi-env-own-action-space-too-small", "C18", "R18.b", ENVM, _MULTI_ACT,
       "        self.action_space = gym.spaces.MultiDiscrete(\n            [instance_with_max_size.num_jobs, instance_with_max_size.num_machines], start=[0, -1]\n        )\n",
       "round-9 seed C18-p2HG: the wildcard takes one of the machine slots")
refactor("c18-r-multi-env-own-action-space", "C18", ENVM, _MULTI_ACT,
         "        self.action_space = gym.spaces.MultiDiscrete(\n            [instance_with_max_size.num_jobs, instance_with_max_size.num_machines + 1], start=[0, -1]\n        )\n",
         "the same space as the inner environment of maximum size, declared directly")

mutant("c20-frames-skipped-when-directory-looks-complete", "C20", "R20.c", GIF,
       "    for i, scheduled_operation in enumerate(schedule_history, start=1):\n        dispatcher.dispatch(",
       "    if len(os.listdir(frames_dir)) == len(schedule_history):\n        return\n    for i, scheduled_operation in enumerate(schedule_history, start=1):\n        dispatcher.dispatch(",
       "round-9 seed C20-p1HI: frames of another history of the same length are reused")

# ------------------------------------------------------------------ round-10 seeds distilled (both ways)
mutant("c10-default-condition-rejects", "C10", "R10.e", DISP,
       "        condition: Callable[[DispatcherObserver], bool] = lambda _: True,",
       "        condition: Callable[[DispatcherObserver], bool] = lambda o: not getattr(o, \"detached\", False),",
       "round-10 seed C10-b2FB: a default condition that can reject a subscribed observer of the type")
refactor("c10-r-default-condition-named", "C10", DISP,
         "        condition: Callable[[DispatcherObserver], bool] = lambda _: True,",
         "        condition: Callable[[DispatcherObserver], bool] = lambda existing_observer: True,",
         "another spelling of the always-true default")
mutant("c07-dominance-tie-kept", "C07", "R07.m", FILT,
       "            is_dominated = start_time >= min_machine_end_times[machine_id]",
       "            is_dominated = start_time > min_machine_end_times[machine_id]",
       "round-10 seed C07-b1FC: a start exactly at the earliest completion counts as not dominated")
refactor("c07-r-dominance-flipped", "C07", FILT,
         "            is_dominated = start_time >= min_machine_end_times[machine_id]",
         "            is_dominated = min_machine_end_times[machine_id] <= start_time",
         "the same test with the operands exchanged")
mutant("c05-clock-over-raw-ready", "C05", "R05.g", DISP,
       "        available_operations = self.available_operations()\n        current_time = self.min_start_time(available_operations)",
       "        available_operations = self.raw_ready_operations()\n        current_time = self.min_start_time(available_operations)",
       "round-10 seed C05-b2FD: the clock ignores the installed filter")
mutant("c14-machines-normalised", "C14", "R14.l", INST,
       "                    Operation(duration=duration, machines=machines)",
       "                    Operation(duration=duration, machines=machines if isinstance(machines, int) else sorted(set(machines)))",
       "round-10 seed C14-b2FF: machine alternatives sorted and de-duplicated on the way in")
refactor("c14-r-machines-copied", "C14", INST,
         "                    Operation(duration=duration, machines=machines)",
         "                    Operation(duration=duration, machines=machines if isinstance(machines, int) else list(machines))",
         "a copy keeps order and multiplicity")
_v("c04-tie-by-isclose", "C04", "mutant", "R04.c", [
    (RULES, "import random\n", "import math\nimport random\n"),
    (RULES, "                if scores[operation.job_id] == best_score", "                if math.isclose(scores[operation.job_id], best_score)"),
], "round-10 seed C04-b1FC: approximate comparison of scores")
mutant("c20-history-sorted-before-replay", "C20", "R20.c", GIF,
       "        dispatcher = Dispatcher(instance)\n        makespan = max(",
       "        dispatcher = Dispatcher(instance)\n        schedule_history = sorted(schedule_history, key=lambda so: (so.start_time, so.operation.operation_id))\n        makespan = max(",
       "round-10 seed C02-b2FB: the recorded history is re-ordered before it is replayed")
mutant("c16-disjunctive-pairs-skipped", "C16", "R16.e", BDG,
       "        for node1, node2 in itertools.combinations(machine, 2):",
       "        for node1, node2 in itertools.combinations(machine, 2):\n            if node1.operation.job_id == node2.operation.job_id:\n                continue",
       "round-10 seed C16-b2FE: some pairs of a machine get no disjunctive edge")


# ------------------------------------------------------------------ round 12 / seed round 11 (large clean-ups with one slip)
GUPD = "job_shop_lib/graphs/graph_updaters/_graph_updater.py"
UOBS2 = "job_shop_lib/dispatching/_unscheduled_operations_observer.py"
MENV = "job_shop_lib/reinforcement_learning/_multi_job_shop_graph_env.py"
GCC = "job_shop_lib/visualization/_gantt_chart_creator.py"
REW2 = "job_shop_lib/reinforcement_learning/_reward_observers.py"
ATG = "job_shop_lib/graphs/_build_agent_task_graph.py"
GGEN = "job_shop_lib/generation/_general_instance_generator.py"

_v("c12-m-reset-shallow-copy", "C12", "mutant", "R12.d", [
    (GUPD, "from copy import deepcopy\n", "from copy import deepcopy, copy\n"),
    (GUPD, "        self.job_shop_graph = deepcopy(self.initial_job_shop_graph)", "        self.job_shop_graph = copy(self.initial_job_shop_graph)"),
], "shallow copy shares the networkx graph and the removed flags with the pristine graph")
mutant("c05-m-update-head-test", "C05", "R05.e", UOBS2,
       "        if job_deque:\n            job_deque.popleft()",
       "        if not job_deque or job_deque[0] != scheduled_operation.operation:\n            return\n        job_deque.popleft()",
       "notifications replayed machine by machine are dropped")
mutant("c18-m-init-padding-constant", "C18", "R18.a", MENV,
       "            render_config=render_config,\n            use_padding=use_padding,\n",
       "            render_config=render_config,\n            use_padding=True,\n",
       "the constructor argument does not reach the inner environment")
_v("c15-m-flat-zip", "C15", "mutant", "R15.a", [
    (INST, "        return self.jobs == other.jobs",
     "        if self.num_jobs != other.num_jobs:\n            return False\n"
     "        return all(map(operator.eq, itertools.chain.from_iterable(self.jobs), itertools.chain.from_iterable(other.jobs)))"),
    (INST, "import functools\n", "import functools\nimport itertools\nimport operator\n"),
], "flattened streams paired up to the shorter one")
_v("c15-r-flat-zip-guarded", "C15", "refactor", None, [
    (INST, "        return self.jobs == other.jobs",
     "        if list(map(len, self.jobs)) != list(map(len, other.jobs)):\n            return False\n"
     "        return all(map(operator.eq, itertools.chain.from_iterable(self.jobs), itertools.chain.from_iterable(other.jobs)))"),
    (INST, "import functools\n", "import functools\nimport itertools\nimport operator\n"),
], "the job lengths agree: the flattened streams have equal length and the same boundaries")
_v("c20-m-history-captured", "C20", "mutant", "R20.d", [
    (GCC, "        self.partial_gantt_chart_plotter = get_partial_gantt_chart_plotter(\n            **self.gannt_chart_wrapper_config\n        )\n",
     "        self.partial_gantt_chart_plotter = get_partial_gantt_chart_plotter(\n            **self.gannt_chart_wrapper_config\n        )\n"
     "        self._recorded_history = self.history_observer.history\n"),
    (GCC, "        create_gantt_chart_gif(\n            instance=self.history_observer.dispatcher.instance,\n            schedule_history=self.history_observer.history,",
     "        create_gantt_chart_gif(\n            instance=self.history_observer.dispatcher.instance,\n            schedule_history=self._recorded_history,"),
], "HistoryObserver.reset rebinds its list: the captured one is the first episode's")
_v("c10-r-notify-by-name", "C10", "refactor", None, [
    (DISP, "        self._cache = {}\n        for subscriber in self.subscribers:\n            subscriber.reset()\n",
     "        self._cache = {}\n        self._notify(\"reset\")\n\n"
     "    def _notify(self, event: str, *args) -> None:\n        for subscriber in self.subscribers:\n            getattr(subscriber, event)(*args)\n"),
    (DISP, "        # Notify subscribers\n        for subscriber in self.subscribers:\n            subscriber.update(scheduled_operation)\n",
     "        self._notify(\"update\", scheduled_operation)\n"),
], "hook picked by a literal name: cloned per literal by the pre-pass")
_v("c10-m-notify-snapshot", "C10", "mutant", "R10.a", [
    (DISP, "        # Notify subscribers\n        for subscriber in self.subscribers:\n            subscriber.update(scheduled_operation)\n",
     "        handlers = [subscriber.update for subscriber in self.subscribers]\n        for handler in handlers:\n            handler(scheduled_operation)\n"),
], "an observer unsubscribed during the notification is still called")
_v("c16-r-pipeline-steps", "C16", "refactor", None, [
    (ATG, "    graph = JobShopGraph(instance)\n\n    add_machine_nodes(graph)\n    add_operation_machine_edges(graph)\n    add_machine_machine_edges(graph)\n\n    add_same_job_operations_edges(graph)\n\n    return graph\n\n\n# BUILDING BLOCKS",
     "    return _build(\n        instance,\n        add_machine_nodes,\n        add_operation_machine_edges,\n        add_machine_machine_edges,\n        add_same_job_operations_edges,\n    )\n\n\n"
     "def _build(instance, *steps):\n    graph = JobShopGraph(instance)\n    for step in steps:\n        step(graph)\n    return graph\n\n\n# BUILDING BLOCKS"),
], "the blocks run as the elements of *steps: the loop is unrolled at the call")
_v("c13-r-template-update", "C13", "refactor", None, [
    (REW2, "    def reset(self) -> None:\n        \"\"\"Sets rewards attribute to a new empty list.\"\"\"\n        self.rewards = []\n",
     "    def reset(self) -> None:\n        \"\"\"Sets rewards attribute to a new empty list.\"\"\"\n        self.rewards = []\n\n"
     "    def update(self, scheduled_operation: ScheduledOperation):\n        reward = self._compute_reward(scheduled_operation)\n        self.rewards.append(reward)\n\n"
     "    def _compute_reward(self, scheduled_operation: ScheduledOperation):\n        raise NotImplementedError\n"),
    (REW2, "    def update(self, scheduled_operation: ScheduledOperation):\n        last_makespan = self.current_makespan\n        self.current_makespan = max(\n            last_makespan, scheduled_operation.end_time\n        )\n        reward = last_makespan - self.current_makespan\n        self.rewards.append(reward)\n",
     "    def _compute_reward(self, scheduled_operation: ScheduledOperation):\n        last_makespan = self.current_makespan\n        self.current_makespan = max(\n            last_makespan, scheduled_operation.end_time\n        )\n        return last_makespan - self.current_makespan\n"),
], "update pulled up as a template method: copied back where the pinned tree defines it")
_v("c19-r-pool-per-job-genexp", "C19", "refactor", None, [
    (GGEN, "        jobs = []\n        available_machines = list(range(num_machines))\n        for _ in range(num_jobs):\n            job = []\n            for _ in range(num_machines):\n                operation = self.create_random_operation(available_machines)\n                job.append(operation)\n            jobs.append(job)\n            available_machines = list(range(num_machines))\n",
     "        machine_ids = range(num_machines)\n        jobs = [\n            [self.create_random_operation(pool) for _ in machine_ids]\n            for pool in (list(machine_ids) for _ in range(num_jobs))\n        ]\n"),
], "a fresh pool per job bound by a generator clause")
_v("c05-r-makespan-memo", "C05", "refactor", None, [
    (SCH, "        self.instance: JobShopInstance = instance\n        self._schedule = schedule\n",
     "        self.instance: JobShopInstance = instance\n        self._schedule = schedule\n        self._makespan: int | None = None\n"),
    (SCH, "        Schedule.check_schedule(new_schedule)\n        self._schedule = new_schedule\n",
     "        Schedule.check_schedule(new_schedule)\n        self._schedule = new_schedule\n        self._makespan = None\n"),
    (SCH, "        max_end_time = 0\n        for machine_schedule in self.schedule:\n            if machine_schedule:\n                max_end_time = max(max_end_time, machine_schedule[-1].end_time)\n        return max_end_time\n",
     "        if self._makespan is None:\n            max_end_time = 0\n            for machine_schedule in self.schedule:\n                if machine_schedule:\n                    max_end_time = max(max_end_time, machine_schedule[-1].end_time)\n            self._makespan = max_end_time\n        return self._makespan\n"),
    (SCH, "        self.schedule[scheduled_operation.machine_id].append(\n            scheduled_operation\n        )\n",
     "        self.schedule[scheduled_operation.machine_id].append(\n            scheduled_operation\n        )\n        self._makespan = None\n"),
], "a private memo invalidated by every writer of what it is computed from")
_v("c07-r-makespan-memo", "C07", "refactor", None, list(VARIANTS[-1]["edits"]), "same memo, judged by the filter-purity rule")
_v("c05-m-makespan-memo-stale", "C05", "mutant", "R05.a", [e for e in VARIANTS[-2]["edits"] if "append" not in e[1]],
   "Schedule.add does not drop the memo: the fill is a write that makes later queries reflect an earlier state")


# ------------------------------------------------------------------ seed round 12 / twins of rounds 9 and 12
SENV = "job_shop_lib/reinforcement_learning/_single_job_shop_graph_env.py"
mutant("c09-n-sentinel-order-test", "C09", "R09.e", SENV,
       "        if machine_id == -1:\n            machine_id = operation.machine_id",
       "        if machine_id < 0:\n            machine_id = operation.machine_id",
       "every negative machine id is taken for the -1 sentinel")
_v("c12-n-reset-from-construction-snapshot", "C12", "mutant", "R12.a", [
    (REW2, "        super().__init__(dispatcher, subscribe=subscribe)\n        self.current_makespan = dispatcher.schedule.makespan()\n",
     "        super().__init__(dispatcher, subscribe=subscribe)\n        self._initial_makespan = dispatcher.schedule.makespan()\n        self.current_makespan = self._initial_makespan\n"),
    (REW2, "        super().reset()\n        self.current_makespan = self.dispatcher.schedule.makespan()",
     "        super().reset()\n        self.current_makespan = self._initial_makespan"),
], "reset restores the makespan of the moment the observer was attached")
mutant("c10-n-guard-skipped-unsubscribed", "C10", "R10.c", DISP,
       "        if self._is_singleton and any(\n            isinstance(observer, self.__class__)\n            for observer in dispatcher.subscribers\n        ):",
       "        if not subscribe:\n            self.dispatcher = dispatcher\n            return\n        if self._is_singleton and any(\n            isinstance(observer, self.__class__)\n            for observer in dispatcher.subscribers\n        ):",
       "the singleton guard is not evaluated for subscribe=False")
_v("c05-r-incremental-makespan-refused", "C05", "refusal", None, [
    (SCH, "        self.instance: JobShopInstance = instance\n        self._schedule = schedule\n",
     "        self.instance: JobShopInstance = instance\n        self._schedule = schedule\n        self._makespan: int | None = None\n"),
    (SCH, "        Schedule.check_schedule(new_schedule)\n        self._schedule = new_schedule\n",
     "        Schedule.check_schedule(new_schedule)\n        self._schedule = new_schedule\n        self._makespan = None\n"),
    (SCH, "        max_end_time = 0\n        for machine_schedule in self.schedule:\n            if machine_schedule:\n                max_end_time = max(max_end_time, machine_schedule[-1].end_time)\n        return max_end_time\n",
     "        if self._makespan is None:\n            max_end_time = 0\n            for machine_schedule in self.schedule:\n                if machine_schedule:\n                    max_end_time = max(max_end_time, machine_schedule[-1].end_time)\n            self._makespan = max_end_time\n        return self._makespan\n"),
    (SCH, "        self.schedule[scheduled_operation.machine_id].append(\n            scheduled_operation\n        )\n",
     "        self.schedule[scheduled_operation.machine_id].append(\n            scheduled_operation\n        )\n        if self._makespan is not None:\n            self._makespan = max(self._makespan, scheduled_operation.end_time)\n"),
], "a running maximum advanced by add(): bookkeeping of a query, neither accepted as a memo nor reported")


# ------------------------------------------------------------------ twins of seed round 8 (feature commits)
_KM_CTOR = ("        self._cache: dict[str, Any] = {}\n\n",
            "        self._cache: dict[str, Any] = {}\n        self._earliest_start_memo: dict[int, int] = {}\n\n")
_KM_RESET = ("        self._cache = {}\n        for subscriber in self.subscribers:\n            subscriber.reset()\n",
             "        self._cache = {}\n        self._earliest_start_memo = {}\n        for subscriber in self.subscribers:\n            subscriber.reset()\n")
_KM_UPD = ("        self._job_next_available_time[job_id] = end_time\n        self._cache = {}\n",
           "        self._job_next_available_time[job_id] = end_time\n        self._cache = {}\n        self._earliest_start_memo.clear()\n")
_KM_Q = ("        machine_earliest_start_time = min(\n            self._machine_next_available_time[machine_id]\n            for machine_id in operation.machines\n        )\n        job_start_time = self._job_next_available_time[operation.job_id]\n        return max(machine_earliest_start_time, job_start_time)\n",
         "        known = self._earliest_start_memo.get(operation.operation_id)\n        if known is None:\n            machine_earliest_start_time = min(\n                self._machine_next_available_time[machine_id]\n                for machine_id in operation.machines\n            )\n            job_start_time = self._job_next_available_time[operation.job_id]\n            known = max(machine_earliest_start_time, job_start_time)\n            self._earliest_start_memo[operation.operation_id] = known\n        return known\n")
_v("c07-r-keyed-memo", "C07", "refactor", None, [(DISP,) + _KM_CTOR, (DISP,) + _KM_RESET, (DISP,) + _KM_UPD, (DISP,) + _KM_Q],
   "earliest_start_time memoised per operation id, the table emptied by every writer of what it is computed from")
_v("c09-r-keyed-memo", "C09", "refactor", None, list(VARIANTS[-1]["edits"]), "same keyed memo: a fill before a rejection is no trace")
_v("c05-r-keyed-memo", "C05", "refactor", None, list(VARIANTS[-1]["edits"]), "same keyed memo, judged by the query-purity rule")
_v("c07-m-keyed-memo-stale", "C07", "mutant", "R07.e", [(DISP,) + _KM_CTOR, (DISP,) + _KM_RESET, (DISP,) + _KM_Q],
   "the update path does not empty the table: the filters read start times of an earlier state")
mutant("c19-z-seeded-if-truthy", "C19", "R19.c", "job_shop_lib/generation/_instance_generator.py",
       "        self.rng = random.Random(seed)\n",
       "        self.rng = random.Random()\n        if seed:\n            self.rng.seed(seed)\n",
       "the RNG is seeded only for a truthy seed: seed 0 is not reproducible")
refactor("c19-z-seeded-afterwards", "C19", "job_shop_lib/generation/_instance_generator.py",
         "        self.rng = random.Random(seed)\n",
         "        self.rng = random.Random()\n        if seed is not None:\n            self.rng.seed(seed)\n",
         "Random() then .seed(seed) whenever a seed is given: what Random(seed) does")
ATG = "job_shop_lib/graphs/_build_agent_task_graph.py"
_TRI_OLD = "    for job in graph.nodes_by_job:\n        for operation1, operation2 in itertools.combinations(job, 2):\n            graph.add_edge(operation1, operation2)\n            graph.add_edge(operation2, operation1)\n"
refactor("c16-z-triangular-loop", "C16", ATG, _TRI_OLD,
         "    for job in graph.nodes_by_job:\n        for position, operation1 in enumerate(job):\n            for operation2 in job[position + 1:]:\n                graph.add_edge(operation1, operation2)\n                graph.add_edge(operation2, operation1)\n",
         "combinations(job, 2) written as a triangular double loop")
mutant("c16-z-triangular-loop-window", "C16", "R16.e", ATG, _TRI_OLD,
       "    for job in graph.nodes_by_job:\n        for position, operation1 in enumerate(job):\n            for operation2 in job[position + 1:position + 3]:\n                graph.add_edge(operation1, operation2)\n                graph.add_edge(operation2, operation1)\n",
       "only the next two operations of the job are connected")
_v("c01-z-sorted-insert-refused", "C01", "refusal", None, [
    (SCH, "        self.schedule[scheduled_operation.machine_id].append(\n            scheduled_operation\n        )\n",
     "        machine_schedule = self.schedule[scheduled_operation.machine_id]\n        position = len(machine_schedule)\n        while position > 0 and machine_schedule[position - 1].start_time > scheduled_operation.start_time:\n            position -= 1\n        machine_schedule.insert(position, scheduled_operation)\n"),
], "insert at a searched position: whether the list stays in time order is not decided (neither accepted nor reported)")
mutant("c01-z-insert-at-front", "C01", "R01.a", SCH,
       "        self.schedule[scheduled_operation.machine_id].append(\n            scheduled_operation\n        )\n",
       "        self.schedule[scheduled_operation.machine_id].insert(\n            0, scheduled_operation\n        )\n",
       "a constant position is not an argument about order")
_v("c18-z-edge-space-by-helper", "C18", "refactor", None, [
    (SENV, "        num_edges = self.job_shop_graph.num_edges\n        dict_space: dict[str, gym.Space] = {\n            ObservationSpaceKey.REMOVED_NODES.value: gym.spaces.MultiBinary(\n                len(self.job_shop_graph.nodes)\n            ),\n            ObservationSpaceKey.EDGE_INDEX.value: gym.spaces.MultiDiscrete(\n                np.full(\n                    (2, num_edges),\n                    fill_value=len(self.job_shop_graph.nodes) + 1,\n                    dtype=np.int32,\n                ),\n                start=np.full(\n                    (2, num_edges),\n                    fill_value=-1,  # -1 is used for padding\n                    dtype=np.int32,\n                ),\n            ),\n        }\n",
     "        num_edges = self.job_shop_graph.num_edges\n        num_nodes = len(self.job_shop_graph.nodes)\n        dict_space: dict[str, gym.Space] = {\n            ObservationSpaceKey.REMOVED_NODES.value: gym.spaces.MultiBinary(\n                num_nodes\n            ),\n            ObservationSpaceKey.EDGE_INDEX.value: self._edge_index_space(\n                num_nodes, num_edges\n            ),\n        }\n"),
    (SENV, "    def _get_observation_space(self) -> gym.spaces.Dict:\n",
     "    @staticmethod\n    def _edge_index_space(num_nodes: int, num_edges: int) -> gym.spaces.MultiDiscrete:\n        return gym.spaces.MultiDiscrete(\n            np.full((2, num_edges), fill_value=num_nodes + 1, dtype=np.int32),\n            start=np.full((2, num_edges), fill_value=-1, dtype=np.int32),\n        )\n\n    def _get_observation_space(self) -> gym.spaces.Dict:\n"),
], "the edge-index declaration made by a helper that follows another declaration in the dict display")
_v("c18-z-edge-space-by-helper-short", "C18", "mutant", "R18.b",
   [VARIANTS[-1]["edits"][0], (VARIANTS[-1]["edits"][1][0], VARIANTS[-1]["edits"][1][1], VARIANTS[-1]["edits"][1][2].replace("fill_value=num_nodes + 1", "fill_value=num_nodes - 1"))],
   "the helper's upper bound excludes the last node ids")
_EQ_OLD = "        return (\n            self.operation == value.operation\n            and self.start_time == value.start_time\n            and self.machine_id == value.machine_id\n        )\n"
_v("c15-z-eq-through-id-key", "C15", "mutant", "R15.a", [
    (SOP, _EQ_OLD, "        return self.sort_key() == value.sort_key()\n\n    def sort_key(self) -> tuple[int, int, int]:\n        return (self.start_time, self.machine_id, self.operation.operation_id)\n\n    def __hash__(self) -> int:\n        return hash(self.sort_key())\n"),
], "equality through a key that identifies the operation by its id only")
_v("c15-z-eq-through-full-key", "C15", "refactor", None, [
    (SOP, _EQ_OLD, "        return self._key() == value._key()\n\n    def _key(self):\n        return (self.operation, self.start_time, self.machine_id)\n\n    def __hash__(self) -> int:\n        return hash(self._key())\n"),
], "equality and hash through a key of the plain content fields")
