"""Patch corpus: the stored diffs under /verif/refactors (behaviour-preserving
rewrites written by independent sessions) and /verif/seeded (property-breaking
changes, each confirmed by a failing demonstration) applied to the *current*
tree as in-memory overlays.

  refactor  -> the check must stay silent (exit 0)
  seeded    -> every check listed for it in seeded/EXPECT.json must report a
               VIOLATION (exit 1)

A patch that no longer applies to the current tree is *stale* and skipped.
Like the variant corpus, a disagreement is a defect of the checker and is
reported as ANALYSIS-ERROR, never as a VIOLATION.
"""

from __future__ import annotations

import json
import os
import shutil
import subprocess
import tempfile
import time
from concurrent.futures import ProcessPoolExecutor

from .. import REPO_ROOT

V = os.path.dirname(os.path.dirname(os.path.dirname(os.path.abspath(__file__))))
EXPECT = os.path.join(V, "seeded", "EXPECT.json")


def overlay_of(patch, root=REPO_ROOT):
    """Applies the diff to scratch copies of the touched files; {rel: text},
    with ``None`` for a file the patch deletes or moves away, or None when the
    patch does not apply."""
    files = []
    for ln in open(patch, encoding="utf-8"):
        for pre in ("+++ b/", "--- a/", "rename from ", "rename to ", "copy from ", "copy to "):
            if ln.startswith(pre):
                f = ln[len(pre):].strip()
                if f and f != "/dev/null" and f not in files:
                    files.append(f)
    tmp = tempfile.mkdtemp(prefix="jslpc-")
    try:
        for rel in files:
            dst = os.path.join(tmp, rel)
            os.makedirs(os.path.dirname(dst), exist_ok=True)
            src = os.path.join(root, rel)
            if os.path.exists(src):
                shutil.copy(src, dst)
        # git apply understands renames, new and deleted files; it is strict
        # (no fuzz).  `patch` is the fallback for diffs git refuses.
        r = subprocess.run(["git", "apply", "-p1", "--whitespace=nowarn", os.path.abspath(patch)], cwd=tmp, capture_output=True, text=True,
                           env={**os.environ, "GIT_DIR": os.path.join(tmp, ".nogit"), "GIT_CEILING_DIRECTORIES": tmp})
        if r.returncode != 0:
            for rel in files:  # restore pristine copies before the fallback
                dst = os.path.join(tmp, rel)
                src = os.path.join(root, rel)
                if os.path.exists(src):
                    shutil.copy(src, dst)
                elif os.path.exists(dst):
                    os.remove(dst)
            r = subprocess.run(
                ["patch", "-p1", "-s", "-f", "-F0", "--no-backup-if-mismatch", "-i", os.path.abspath(patch)],
                cwd=tmp, capture_output=True, text=True,
            )
            if r.returncode != 0:
                return None
        out = {}
        for rel in files:
            if not rel.endswith(".py"):
                continue
            f = os.path.join(tmp, rel)
            if os.path.exists(f):
                out[rel] = open(f, encoding="utf-8").read()
            elif os.path.exists(os.path.join(root, rel)):
                out[rel] = None  # deleted / moved away
        return out
    finally:
        shutil.rmtree(tmp, ignore_errors=True)


def items(which="all"):
    out = []
    for kind, sub in (("refactor", "refactors"), ("seeded", "seeded")):
        if which not in ("all", sub, kind):
            continue
        d = os.path.join(V, sub)
        for name in sorted(os.listdir(d)):
            p = os.path.join(d, name, "patch.diff")
            if os.path.exists(p):
                out.append((kind, name, p))
    return out


def all_props():
    return [c["property_id"] for c in json.load(open(os.path.join(V, "MANIFEST.json")))["checks"]]


def run_one(arg):
    """(kind, id, patch, props) -> (kind, id, status, {prop: (code, text)})"""
    kind, pid, patch, props = arg
    from ..cli import Ctx, run_property

    ov = overlay_of(patch)
    if ov is None:
        return kind, pid, "stale", {}
    try:
        base = Ctx("C00", "quick", 0, overlay=ov)
        _ = base.types
    except Exception as e:  # noqa: BLE001
        return kind, pid, f"error {e!r}", {}
    res = {}
    for p in props:
        code, chk, err = run_property(p, write=False, quiet=True, base=base)
        if code != 0:
            res[p] = (code, err or "; ".join(f"{f.rule}: {f.message[:90]}" for f in chk.findings[:2]))
    return kind, pid, "ran", res


def load_refusals():
    """{patch id: set of checks} documented in refactors/REFUSALS.json."""
    p = os.path.join(V, "refactors", "REFUSALS.json")
    if not os.path.exists(p):
        return {}
    d = json.load(open(p, encoding="utf-8"))
    return {k: set(v["checks"]) for k, v in d.items() if isinstance(v, dict)}


def load_features():
    """{patch id: {check: [rule ids]}} from refactors/FEATURES.json: additive
    feature patches whose *new* API surface no longer satisfies a property as
    stated (existing calls behave as before).  The named check is expected to
    report it (exit 1 under one of the named rules); silence would be a miss."""
    p = os.path.join(V, "refactors", "FEATURES.json")
    if not os.path.exists(p):
        return {}
    d = json.load(open(p, encoding="utf-8"))
    return {k: dict(v["reports"]) for k, v in d.items() if isinstance(v, dict)}


def load_expect():
    if os.path.exists(EXPECT):
        return json.load(open(EXPECT, encoding="utf-8"))
    return {}


def run_for_property(prop, verbose=True, jobs=None):
    """Thorough-tier use: this property's check against every refactor patch
    (silent) and against the seeded patches it is recorded to catch."""
    exp = load_expect()
    work = []
    for kind, pid, patch in items():
        if kind == "refactor" or prop in exp.get(pid, []):
            work.append((kind, pid, patch, [prop]))
    t0 = time.time()
    jobs = jobs or min(16, os.cpu_count() or 4)
    with ProcessPoolExecutor(max_workers=jobs) as ex:
        results = list(ex.map(run_one, work))
    bad, stale = [], []
    n_ref = n_seed = n_refused = 0
    refusals = load_refusals()
    features = load_features()
    for kind, pid, st, res in results:
        if st != "ran":
            stale.append(pid)
            continue
        code, msg = res.get(prop, (0, ""))
        if kind == "refactor":
            n_ref += 1
            want = features.get(pid, {}).get(prop)
            if want:
                # the patch's new API breaks the property as stated: must be reported
                if not (code == 1 and any(r in msg for r in want)):
                    bad.append(f"feature patch {pid}: expected a report under {want}, got exit {code}: {msg[:120]}")
                continue
            if code == 2 and prop in refusals.get(pid, ()):
                n_refused += 1  # documented: outside the analysable fragment
            elif code != 0:
                bad.append(f"refactor {pid}: exit {code}: {msg[:160]}")
        else:
            n_seed += 1
            if code != 1:
                bad.append(f"seeded {pid}: expected a violation, got exit {code} {msg[:120]}")
    summary = {
        "refactor_patches_silent": n_ref - n_refused - sum(1 for b in bad if b.startswith("refactor")),
        "refactor_patches": n_ref,
        "refactor_patches_refused_as_documented": n_refused,
        "seeded_patches_detected": n_seed - sum(1 for b in bad if b.startswith("seeded")),
        "seeded_patches_expected": n_seed,
        "stale": stale,
        "disagreements": bad,
        "seconds": round(time.time() - t0, 1),
    }
    if verbose:
        for b in bad:
            print("  patch corpus:", b)
        print(f"patch corpus[{prop}]: {n_ref} refactor patches, {n_seed} seeded patches, {len(stale)} stale, {len(bad)} disagreements, {summary['seconds']}s")
    return (2 if bad else 0), summary
