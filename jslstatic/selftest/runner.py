"""Self-validation corpus runner.

Each variant is an in-memory overlay of the *current* tree: a **mutant** (one
rule instance broken, still compiling) must make the property's check report
a VIOLATION naming the expected rule; a **refactor** (behaviour-preserving
rewrite) must stay silent.  A disagreement means the *checker* is broken:
it is reported as ANALYSIS-ERROR (exit 2), never as a VIOLATION.

A variant whose anchor text no longer occurs exactly once in the current tree
is *stale* (the tree moved on); stale variants are listed, not failed.
"""

from __future__ import annotations

import ast
import os
import sys
import time
from concurrent.futures import ProcessPoolExecutor

from .. import REPO_ROOT


def _apply(variant, root=REPO_ROOT):
    """Returns overlay dict or None when stale."""
    overlay = {}
    if variant.get("base"):
        # the variant is an edit of a stored refactor patch (e.g. a mutation of
        # a re-architected tree)
        from . import patches

        path = os.path.join(os.path.dirname(os.path.dirname(os.path.dirname(os.path.abspath(__file__)))), "refactors", variant["base"], "patch.diff")
        try:
            overlay = dict(patches.overlay_of(path))
        except Exception:
            return None
        if not overlay:
            return None
    for edit in variant["edits"]:
        rel, old, new = edit[:3]
        everywhere = len(edit) > 3 and edit[3] == "all"
        src = overlay.get(rel)
        if src is None:
            with open(os.path.join(root, rel), encoding="utf-8") as fh:
                src = fh.read()
        if everywhere:
            # identifier rename: whole-word, every occurrence (at least one)
            import re

            src, k = re.subn(r"(?<![A-Za-z0-9_])" + re.escape(old) + r"(?![A-Za-z0-9_])", new, src)
            if k == 0:
                return None
        else:
            if src.count(old) != 1:
                return None
            src = src.replace(old, new)
        try:
            ast.parse(src)
        except SyntaxError:
            return None
        overlay[rel] = src
    return overlay


def _run_one(variant):
    from ..cli import run_property

    overlay = _apply(variant)
    if overlay is None:
        return variant["id"], "stale", ""
    code, chk, err = run_property(variant["prop"], "quick", 0, overlay=overlay, write=False, quiet=True)
    if variant["kind"] == "mutant":
        if code == 1:
            rules = {f.rule for f in chk.findings}
            want = variant.get("rule")
            if want is None or want in rules:
                return variant["id"], "ok", f"reported {sorted(rules)}"
            return variant["id"], "FAIL", f"violation reported under {sorted(rules)}, expected {want}"
        return variant["id"], "FAIL", f"mutant not detected (exit {code}; {err or 'no finding'})"
    # refactor
    if code == 0:
        return variant["id"], "ok", "silent"
    if code == 2 and variant["kind"] == "refusal":
        return variant["id"], "ok", f"refused: {err}"[:160]
    if code == 1:
        return variant["id"], "FAIL", "false alarm: " + "; ".join(f"{f.rule} {f.message[:80]}" for f in chk.findings)
    return variant["id"], "FAIL", f"analysis error on a refactor: {err}"


def run(variants, jobs=None, verbose=True):
    t0 = time.time()
    jobs = jobs or min(16, os.cpu_count() or 4)
    results = []
    if jobs > 1 and len(variants) > 1:
        with ProcessPoolExecutor(max_workers=jobs) as ex:
            results = list(ex.map(_run_one, variants))
    else:
        results = [_run_one(v) for v in variants]
    n_ok = sum(1 for r in results if r[1] == "ok")
    n_stale = sum(1 for r in results if r[1] == "stale")
    fails = [r for r in results if r[1] == "FAIL"]
    if verbose:
        for vid, st, msg in results:
            if st != "ok":
                print(f"  selftest {vid}: {st} {msg}")
        print(
            f"selftest: {len(variants)} variants, {n_ok} as expected, "
            f"{n_stale} stale, {len(fails)} disagreements, {time.time() - t0:.1f}s"
        )
    return results, fails


def _rename_probe(prop, seed):
    """The check on the global rename overlay (renames.py): every private
    identifier of the package and every local variable of every function
    renamed to unrelated names."""
    from ..cli import run_property
    from . import renames

    ov, n = renames.both_overlay(seed)
    ov2, n2 = renames.equivalences_overlay(seed, base=ov)  # plus flipped comparisons, swapped branches, x += k spelled out
    ov = {**ov, **ov2}
    n += n2
    if not ov:
        return ("rename-everything", "stale", "")
    code, chk, err = run_property(prop, "quick", 0, overlay=ov, write=False, quiet=True)
    if code == 0:
        return ("rename-everything", "ok", f"{n} mechanical edits (private identifiers, locals, comparisons, branches), silent")
    if code == 1:
        return ("rename-everything", "FAIL", "false alarm on a pure rename: " + "; ".join(f"{f.rule} {f.message[:80]}" for f in chk.findings[:2]))
    return ("rename-everything", "FAIL", f"analysis error on a pure rename: {err}")


def _api_probe(prop, seed):
    """The check on the mechanical API-evolution overlay (apiprobe.py): public
    attributes behind properties, public methods renamed with forwarding aliases."""
    from ..cli import run_property
    from . import apiprobe

    ov, n_enc, n_alias = apiprobe.overlay(seed)
    if not ov:
        return ("api-evolution", "stale", "")
    code, chk, err = run_property(prop, "quick", 0, overlay=ov, write=False, quiet=True)
    if code == 0:
        return ("api-evolution", "ok", f"{n_enc} attributes encapsulated, {n_alias} methods renamed with forwarding aliases, silent")
    if code == 1:
        return ("api-evolution", "FAIL", "false alarm on mechanical encapsulation / aliasing: " + "; ".join(f"{f.rule} {f.message[:80]}" for f in chk.findings[:2]))
    return ("api-evolution", "FAIL", f"analysis error on mechanical encapsulation / aliasing: {err}")


def run_for_property(prop, seed=0, verbose=True):
    from .variants import VARIANTS

    vs = [v for v in VARIANTS if v["prop"] == prop]
    if not vs:
        return 0, {"variants": 0}
    results, fails = run(vs, verbose=verbose)
    for rp in (_rename_probe(prop, seed), _api_probe(prop, seed)):
        if verbose and rp[1] != "ok":
            print(f"  selftest {rp[0]}: {rp[1]} {rp[2]}")
        results.append(rp)
        vs = vs + [{"id": rp[0], "kind": "refactor"}]
        if rp[1] == "FAIL":
            fails = fails + [rp]
    summary = {
        "variants": len(vs),
        "mutants_detected": sum(1 for v, r in zip(vs, results) if v["kind"] == "mutant" and r[1] == "ok"),
        "refactors_silent": sum(1 for v, r in zip(vs, results) if v["kind"] == "refactor" and r[1] == "ok"),
        "stale": [r[0] for r in results if r[1] == "stale"],
        "disagreements": [f"{r[0]}: {r[2]}" for r in fails],
    }
    if fails:
        return 2, summary
    return 0, summary


def main():
    from .variants import VARIANTS

    sel = sys.argv[1:]
    vs = [v for v in VARIANTS if not sel or v["prop"] in sel or v["id"] in sel]
    _, fails = run(vs)
    sys.stdout.flush()
    os._exit(1 if fails else 0)


if __name__ == "__main__":
    main()
