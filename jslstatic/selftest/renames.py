"""Global private-rename overlay: every private identifier *defined* in the
package (methods, functions, attributes, module constants, slot names that
begin with a single underscore) is renamed to an unrelated name, consistently
across all files.  Behaviour-preserving by construction; every check must stay
silent on it (a rule anchored on a private spelling would not)."""

from __future__ import annotations

import ast
import os
import random
import re

from .. import REPO_ROOT

_PRIV = re.compile(r"^_[a-zA-Z][A-Za-z0-9_]*$")
# `_is_singleton` is the documented class-level switch observer authors set:
# part of the extension interface although spelled privately
KEEP = {"_abc_impl", "_is_singleton"}


def overlay(seed: int = 0, root: str = REPO_ROOT):
    files = {}
    for dp, _dn, fn in os.walk(os.path.join(root, "job_shop_lib")):
        for f in fn:
            if f.endswith(".py"):
                full = os.path.join(dp, f)
                with open(full, encoding="utf-8") as fh:
                    files[os.path.relpath(full, root)] = fh.read()
    defined = set()
    for src in files.values():
        for n in ast.walk(ast.parse(src)):
            if isinstance(n, (ast.FunctionDef, ast.ClassDef)):
                name = n.name
            elif isinstance(n, ast.Attribute) and isinstance(n.ctx, ast.Store):
                name = n.attr
            elif isinstance(n, ast.Name) and isinstance(n.ctx, ast.Store):
                name = n.id
            else:
                continue
            if _PRIV.match(name) and not name.startswith("__"):
                defined.add(name)
    # a private attribute spelled like a module file cannot be renamed
    # textually without breaking the import of that module
    modules = {os.path.splitext(os.path.basename(r))[0] for r in files} | {os.path.basename(os.path.dirname(r)) for r in files}
    names = sorted(defined - KEEP - modules)
    codes = list(range(len(names)))
    random.Random(seed).shuffle(codes)
    mapping = {n: f"_q{c:03d}" for n, c in zip(names, codes)}
    if not names:
        return {}, mapping
    pat = re.compile(r"(?<![A-Za-z0-9_])(" + "|".join(re.escape(n) for n in sorted(names, key=len, reverse=True)) + r")(?![A-Za-z0-9_])")
    out = {}
    for rel, src in files.items():
        new = pat.sub(lambda m: mapping[m.group(1)], src)
        if new != src:
            ast.parse(new)
            out[rel] = new
    return out, mapping
