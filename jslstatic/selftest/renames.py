"""Global private-rename overlay: every private identifier *defined* in the
package (methods, functions, attributes, module constants, slot names that
begin with a single underscore) is renamed to an unrelated name, consistently
across all files.  Behaviour-preserving by construction; every check must stay
silent on it (a rule anchored on a private spelling would not)."""

from __future__ import annotations

import ast
import os
import random
import re

from .. import REPO_ROOT

_PRIV = re.compile(r"^_[a-zA-Z][A-Za-z0-9_]*$")
# `_is_singleton` is the documented class-level switch observer authors set:
# part of the extension interface although spelled privately
KEEP = {"_abc_impl", "_is_singleton"}


def overlay(seed: int = 0, root: str = REPO_ROOT):
    files = {}
    for dp, _dn, fn in os.walk(os.path.join(root, "job_shop_lib")):
        for f in fn:
            if f.endswith(".py"):
                full = os.path.join(dp, f)
                with open(full, encoding="utf-8") as fh:
                    files[os.path.relpath(full, root)] = fh.read()
    defined = set()
    for src in files.values():
        for n in ast.walk(ast.parse(src)):
            if isinstance(n, (ast.FunctionDef, ast.ClassDef)):
                name = n.name
            elif isinstance(n, ast.Attribute) and isinstance(n.ctx, ast.Store):
                name = n.attr
            elif isinstance(n, ast.Name) and isinstance(n.ctx, ast.Store):
                name = n.id
            else:
                continue
            if _PRIV.match(name) and not name.startswith("__"):
                defined.add(name)
    # a private attribute spelled like a module file cannot be renamed
    # textually without breaking the import of that module
    modules = {os.path.splitext(os.path.basename(r))[0] for r in files} | {os.path.basename(os.path.dirname(r)) for r in files}
    names = sorted(defined - KEEP - modules)
    codes = list(range(len(names)))
    random.Random(seed).shuffle(codes)
    mapping = {n: f"_q{c:03d}" for n, c in zip(names, codes)}
    if not names:
        return {}, mapping
    pat = re.compile(r"(?<![A-Za-z0-9_])(" + "|".join(re.escape(n) for n in sorted(names, key=len, reverse=True)) + r")(?![A-Za-z0-9_])")
    out = {}
    for rel, src in files.items():
        new = pat.sub(lambda m: mapping[m.group(1)], src)
        if new != src:
            ast.parse(new)
            out[rel] = new
    return out, mapping


# --------------------------------------------------------------------------
def both_overlay(seed: int = 0, root: str = REPO_ROOT):
    """Private rename and alpha renaming together."""
    ov1, mapping = overlay(seed, root)
    ov2, n = alpha_overlay(seed, root, base=ov1)
    out = dict(ov1)
    out.update(ov2)
    return out, len(mapping) + n


def alpha_overlay(seed: int = 0, root: str = REPO_ROOT, only: str | None = None, base: dict | None = None):
    """Alpha-renaming overlay: in every function of the package every *local*
    variable (assignment / loop / with / comprehension / walrus / except
    targets; not parameters, not globals) gets an unrelated name, consistently
    within the function and its nested functions.  Behaviour-preserving by
    construction; the sources are re-emitted with ast.unparse."""
    import builtins

    rnd = random.Random(seed)
    out = {}
    n_renamed = 0
    for dp, _dn, fn in os.walk(os.path.join(root, "job_shop_lib")):
        for f in fn:
            if not f.endswith(".py"):
                continue
            full = os.path.join(dp, f)
            rel = os.path.relpath(full, root)
            if only is not None and only not in rel:
                continue
            if base is not None and rel in base:
                src = base[rel]
            else:
                with open(full, encoding="utf-8") as fh:
                    src = fh.read()
            tree = ast.parse(src)
            module_names = set(dir(builtins))
            for st in ast.walk(tree):
                if isinstance(st, (ast.Import, ast.ImportFrom)):
                    module_names |= {(a.asname or a.name).split(".")[0] for a in st.names}
            for st in tree.body:
                if isinstance(st, (ast.FunctionDef, ast.ClassDef, ast.AsyncFunctionDef)):
                    module_names.add(st.name)
                elif isinstance(st, (ast.Assign, ast.AnnAssign)):
                    for t in (st.targets if isinstance(st, ast.Assign) else [st.target]):
                        for x in ast.walk(t):
                            if isinstance(x, ast.Name):
                                module_names.add(x.id)

            def top_functions(body):
                for st in body:
                    if isinstance(st, (ast.FunctionDef, ast.AsyncFunctionDef)):
                        yield st
                    elif isinstance(st, ast.ClassDef):
                        yield from top_functions(st.body)

            changed = False
            for fdef in top_functions(tree.body):
                params = set()
                declared = set()
                bound = set()
                inner_names = set()
                for n in ast.walk(fdef):
                    if isinstance(n, (ast.FunctionDef, ast.AsyncFunctionDef, ast.Lambda)):
                        a = n.args
                        params |= {p.arg for p in a.posonlyargs + a.args + a.kwonlyargs}
                        if a.vararg:
                            params.add(a.vararg.arg)
                        if a.kwarg:
                            params.add(a.kwarg.arg)
                        if not isinstance(n, ast.Lambda) and n is not fdef:
                            inner_names.add(n.name)
                    elif isinstance(n, (ast.Global, ast.Nonlocal)):
                        declared |= set(n.names)
                    elif isinstance(n, ast.Name) and isinstance(n.ctx, (ast.Store, ast.Del)):
                        bound.add(n.id)
                    elif isinstance(n, ast.ExceptHandler) and n.name:
                        bound.add(n.name)
                locals_ = sorted(x for x in bound - params - declared - module_names - inner_names if not x.startswith("__") and x != "_")
                if not locals_:
                    continue
                codes = list(range(len(locals_)))
                rnd.shuffle(codes)
                mapping = {x: f"v{c}_{rnd.randrange(100, 999)}" for x, c in zip(locals_, codes)}
                n_renamed += len(mapping)

                class R(ast.NodeTransformer):
                    def visit_Name(self, n):
                        if n.id in mapping:
                            n.id = mapping[n.id]
                        return n

                    def visit_ExceptHandler(self, n):
                        if n.name in mapping:
                            n.name = mapping[n.name]
                        self.generic_visit(n)
                        return n

                R().visit(fdef)
                changed = True
            if changed:
                out[rel] = ast.unparse(tree) + "\n"
    return out, n_renamed


# --------------------------------------------------------------------------
def equivalences_overlay(seed: int = 0, root: str = REPO_ROOT, base: dict | None = None):
    """Mechanical, behaviour-preserving re-spellings applied everywhere they
    are safe:  a < b  ->  b > a  (and <=, ==, != likewise; operands must be
    pure access paths / constants / len() of one);  if c: A else: B  ->
    if not c: B else: A  (plain two-branch ifs);  x += k -> x = x + k  (k an
    integer constant, x a name or attribute path)."""
    from ..normalize import _is_path_expr

    rnd = random.Random(seed)
    flips = {ast.Lt: ast.Gt, ast.Gt: ast.Lt, ast.LtE: ast.GtE, ast.GtE: ast.LtE, ast.Eq: ast.Eq, ast.NotEq: ast.NotEq}

    def pure(e):
        if _is_path_expr(e):
            return True
        return isinstance(e, ast.Call) and isinstance(e.func, ast.Name) and e.func.id == "len" and len(e.args) == 1 and _is_path_expr(e.args[0])

    n_changes = [0]

    class T(ast.NodeTransformer):
        def visit_Compare(self, n):
            self.generic_visit(n)
            if len(n.ops) == 1 and type(n.ops[0]) in flips and pure(n.left) and pure(n.comparators[0]) and rnd.random() < 0.7:
                n_changes[0] += 1
                return ast.Compare(left=n.comparators[0], ops=[flips[type(n.ops[0])]()], comparators=[n.left])
            return n

        def visit_If(self, n):
            self.generic_visit(n)
            if n.orelse and not (len(n.orelse) == 1 and isinstance(n.orelse[0], ast.If)) and rnd.random() < 0.6:
                n_changes[0] += 1
                test = n.test.operand if isinstance(n.test, ast.UnaryOp) and isinstance(n.test.op, ast.Not) else ast.UnaryOp(op=ast.Not(), operand=n.test)
                return ast.If(test=test, body=n.orelse, orelse=n.body)
            return n

        def visit_AugAssign(self, n):
            self.generic_visit(n)
            if (
                isinstance(n.op, (ast.Add, ast.Sub)) and isinstance(n.value, ast.Constant) and isinstance(n.value.value, int)
                and not isinstance(n.value.value, bool) and isinstance(n.target, (ast.Name, ast.Attribute)) and _is_path_expr(n.target)
            ):
                n_changes[0] += 1
                import copy as _copy

                load = _copy.deepcopy(n.target)
                for x in ast.walk(load):
                    if hasattr(x, "ctx"):
                        x.ctx = ast.Load()
                return ast.Assign(targets=[n.target], value=ast.BinOp(left=load, op=n.op, right=n.value))
            return n

    out = {}
    for dp, _dn, fn in os.walk(os.path.join(root, "job_shop_lib")):
        for f in fn:
            if not f.endswith(".py"):
                continue
            full = os.path.join(dp, f)
            rel = os.path.relpath(full, root)
            if base is not None and rel in base:
                src = base[rel]
            else:
                with open(full, encoding="utf-8") as fh:
                    src = fh.read()
            tree = ast.parse(src)
            before = n_changes[0]
            tree = T().visit(tree)
            if n_changes[0] != before:
                ast.fix_missing_locations(tree)
                out[rel] = ast.unparse(tree) + "\n"
    return out, n_changes[0]
