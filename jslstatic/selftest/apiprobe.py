"""Mechanical API-evolution probe (no agent needed): on a copy of the tree

* every public data attribute of a random subset of classes is hidden behind
  a property with a private backing field (getter + trivial setter), the
  class itself reading and writing the backing field;
* a random subset of public methods / functions is renamed `<name>_impl`,
  the old name kept as a forwarder, and every call inside the package
  redirected to the new name.

Both are behaviour-preserving; every check must stay silent (the pre-passes
of api_fold.py translate the program back before the rules look at it)."""
from __future__ import annotations

import ast
import os
import random

from ..baseline_api import BASELINE_ATTRS, PUBLIC_CALLABLES
from ..repo import REPO_ROOT


def _sources(root):
    out = {}
    for dp, _dn, fns in os.walk(os.path.join(root, "job_shop_lib")):
        for fn in sorted(fns):
            if fn.endswith(".py"):
                p = os.path.join(dp, fn)
                out[os.path.relpath(p, root)] = open(p, encoding="utf-8").read()
    return out


def overlay(seed: int = 0, root: str = REPO_ROOT, base: dict | None = None):
    rng = random.Random(seed)
    srcs = dict(_sources(root))
    if base:
        srcs.update({k: v for k, v in base.items() if v is not None})
    trees = {rel: ast.parse(s) for rel, s in srcs.items()}
    n_enc = n_alias = 0
    touched = set()
    # ---- encapsulation
    for rel, t in trees.items():
        for cls in [n for n in ast.walk(t) if isinstance(n, ast.ClassDef)]:
            attrs = BASELINE_ATTRS.get(cls.name)
            if not attrs:
                continue
            methods = [m for m in cls.body if isinstance(m, ast.FunctionDef)]
            stored = set()
            for m in methods:
                a = m.args.posonlyargs + m.args.args
                if not a:
                    continue
                me = a[0].arg
                for n in ast.walk(m):
                    if isinstance(n, ast.Attribute) and isinstance(n.ctx, ast.Store) and isinstance(n.value, ast.Name) and n.value.id == me:
                        stored.add(n.attr)
            slots = next((st for st in cls.body if isinstance(st, ast.Assign) and isinstance(st.targets[0], ast.Name) and st.targets[0].id == "__slots__"), None)
            for x in sorted(a_ for a_ in attrs & stored if not a_.startswith("_")):
                if rng.random() < 0.5 or any(isinstance(m, ast.FunctionDef) and m.name == x for m in cls.body):
                    continue
                y = f"_{x}_bk"
                for m in methods:
                    a = m.args.posonlyargs + m.args.args
                    if not a:
                        continue
                    me = a[0].arg
                    for n in ast.walk(m):
                        if isinstance(n, ast.Attribute) and n.attr == x and isinstance(n.value, ast.Name) and n.value.id == me:
                            n.attr = y
                if slots is not None:
                    keys = slots.value.keys if isinstance(slots.value, ast.Dict) else getattr(slots.value, "elts", [])
                    for k in keys:
                        if isinstance(k, ast.Constant) and k.value == x:
                            k.value = y
                prop = ast.parse(
                    f"@property\ndef {x}(self):\n    return self.{y}\n\n@{x}.setter\ndef {x}(self, value):\n    self.{y} = value\n"
                ).body
                cls.body += prop
                n_enc += 1
                touched.add(rel)
    # ---- forwarding aliases for methods
    cand = []
    for rel, t in trees.items():
        for cls in [n for n in t.body if isinstance(n, ast.ClassDef)]:
            for m in cls.body:
                if (
                    isinstance(m, ast.FunctionDef) and f"{cls.name}.{m.name}" in PUBLIC_CALLABLES and not m.name.startswith("_")
                    and not m.decorator_list and not m.args.vararg and not m.args.kwarg and m.args.args
                ):
                    cand.append((rel, cls, m))
    names = {}
    for rel, cls, m in cand:
        names.setdefault(m.name, []).append((rel, cls, m))
    for name, defs in sorted(names.items()):
        # only names defined once in the package (a rename by attribute name must be unambiguous)
        if len(defs) != 1 or rng.random() < 0.6:
            continue
        # the rename goes by attribute name: the name must not also be a data attribute somewhere
        if any(name in attrs_ for attrs_ in BASELINE_ATTRS.values()):
            continue
        if any(isinstance(n, ast.FunctionDef) and n.name == name and n is not defs[0][2] for t in trees.values() for n in ast.walk(t)):
            continue
        rel, cls, m = defs[0]
        new = name + "_impl"
        for r2, t2 in trees.items():
            for n in ast.walk(t2):
                if isinstance(n, ast.Attribute) and n.attr == name:
                    n.attr = new
                    touched.add(r2)
        a = m.args
        params = [x.arg for x in a.posonlyargs + a.args]
        kw = [x.arg for x in a.kwonlyargs]
        fwd = ast.parse(
            f"def {name}({', '.join(params)}):\n    return {params[0]}.{new}({', '.join(params[1:] + [k + '=' + k for k in kw])})\n"
        ).body[0]
        fwd.args = ast.parse(ast.unparse(m).split("\n")[0].rstrip(":") + ": pass").body[0].args if False else __import__("copy").deepcopy(m.args)
        m.name = new
        cls.body.insert(cls.body.index(m), fwd)
        n_alias += 1
        touched.add(rel)
    ov = {}
    for rel in touched:
        ast.fix_missing_locations(trees[rel])
        ov[rel] = ast.unparse(trees[rel]) + "\n"
    return ov, n_enc, n_alias
