"""Abstract interpretation of a list-returning function over the domain
"order-preserving, duplicate-free sub-sequence of a designated source list".

Used by C07 (filters return sub-lists), C04 (rules return an element of the
available operations) and C05/C07 (available_operations = filter(raw)).

Abstract values
  ("SRC", n)          the source list after n filter applications (n = 0: the
                      source itself)
  ("ELEM", loop, k, n) the element bound by the k-th iteration of ``loop`` over
                      a SRC value (k = None: some element, position unknown)
  ("BUILD", toks, n)  a fresh list holding exactly the elements ``toks``
                      (strictly increasing iteration tokens), built from a
                      source with n applications
  ("PERM", why, node, n) the source's elements reordered / deduplicated
                      (sorted, reversed, set): fine to pick an element from,
                      not a sub-sequence
  ("BAD", why, node)  a recognised shape that is *not* a sub-sequence
  ("OTHER",)          anything else (numbers, sets of machine ids, ...)
"""

from __future__ import annotations

import ast

from .paths import Path, PathEngine
from .repo import AnalysisError, FuncInfo, dotted

ORDER_BREAKERS = {"sorted": "sorted() reorders", "reversed": "reversed() reorders",
                  "set": "set() loses order", "frozenset": "frozenset() loses order"}
COPY_CALLS = {"list", "tuple", "copy.copy", "copy"}


def is_src(v):
    return v[0] == "SRC"


def is_sub(v):
    return v[0] in ("SRC", "BUILD")


def apps(v):
    return v[1] if v[0] == "SRC" else v[2] if v[0] == "BUILD" else 0


class SubInterp:
    def __init__(self, ctx, fi: FuncInfo, init_env: dict, filter_call=None, src_call=None, depth=0):
        """``filter_call(call, env, interp)`` may recognise a call as the
        application of a (trusted) filter and return its argument expression;
        ``src_call(call)`` may recognise a call producing the source."""
        self.ctx = ctx
        self.fi = fi
        self.init_env = init_env
        self.filter_call = filter_call
        self.src_call = src_call
        self.depth = depth
        self.results = []  # (absval, return node, path)
        self.n_paths = 0

    def run(self):
        cache = self.ctx.__dict__.setdefault("_sub_paths", {})
        paths = cache.get(self.fi.qualname)
        if paths is None:
            eng = self.ctx.engine(relevant=lambda e: False, max_depth=0, unroll=2)
            paths = eng.paths(self.fi, self.fi.cls)
            cache[self.fi.qualname] = paths
        self.n_paths = len(paths)
        for p in paths:
            self._run_path(p)
        return self.results

    # ---------------------------------------------------------------- paths
    def _run_path(self, p: Path):
        env = dict(self.init_env)
        counters: dict[int, int] = {}
        for ev in p.events:
            if ev.frame.fi is not self.fi:
                continue
            if ev.kind == "loop" and ev.data.get("phase") == "iter":
                st = ev.node
                if isinstance(st, (ast.For, ast.AsyncFor)):
                    self._bind_loop(st, env, counters)
            elif ev.kind == "write":
                d = ev.data
                if d.get("op") == "loopvar":
                    continue
                st = ev.node
                if d.get("local") and isinstance(st, (ast.Assign, ast.AnnAssign)):
                    tgt = d["target"]
                    val = st.value
                    if val is None:
                        continue
                    # tuple unpacking: only plain names are tracked
                    tg = st.targets[0] if isinstance(st, ast.Assign) else st.target
                    if isinstance(tg, ast.Name):
                        env[tgt.id] = self.eval(val, env)
                    else:
                        env[tgt.id] = ("OTHER",)
                elif d.get("local") and isinstance(st, ast.AugAssign):
                    tgt = d["target"]
                    cur = env.get(tgt.id, ("OTHER",))
                    if is_sub(cur):
                        env[tgt.id] = ("BAD", "in-place += concatenation onto a sub-list", st)
                elif d.get("op") == "mutcall":
                    self._mutcall(ev, env)
            elif ev.kind == "return":
                v = ev.data.get("value")
                if v is None:
                    self.results.append((("OTHER",), ev.node, p))
                else:
                    self.results.append((self.eval(v, env), ev.node, p))

    def _bind_loop(self, st, env, counters):
        it = st.iter
        tgt = st.target
        elem_name = None
        src = it
        if isinstance(it, ast.Call) and dotted(it.func) == "enumerate" and it.args:
            src = it.args[0]
            if isinstance(tgt, ast.Tuple) and len(tgt.elts) == 2 and isinstance(tgt.elts[1], ast.Name):
                elem_name = tgt.elts[1].id
                if isinstance(tgt.elts[0], ast.Name):
                    env[tgt.elts[0].id] = ("OTHER",)
        elif (
            isinstance(it, ast.Call) and dotted(it.func) == "zip" and it.args and all(k.arg == "strict" for k in it.keywords)
            and isinstance(tgt, ast.Tuple) and len(tgt.elts) == len(it.args)
        ):
            # zip walks its arguments in step (stopping at the shortest): the
            # component drawn from a sub-list is an element of it, in order
            vals = [self.eval(a, env) for a in it.args]
            pick = next((i for i, v in enumerate(vals) if is_sub(v) and v[0] != "BAD"), None)
            for i, t in enumerate(tgt.elts):
                if i != pick:
                    for n in ast.walk(t):
                        if isinstance(n, ast.Name):
                            env[n.id] = ("OTHER",)
            if pick is not None and isinstance(tgt.elts[pick], ast.Name):
                src = it.args[pick]
                elem_name = tgt.elts[pick].id
            else:
                k = counters.get(id(st), 0)
                counters[id(st)] = k + 1
                for n in ast.walk(tgt):
                    if isinstance(n, ast.Name):
                        env[n.id] = ("OTHER",)
                return
        elif isinstance(tgt, ast.Name):
            elem_name = tgt.id
        v = self.eval(src, env)
        k = counters.get(id(st), 0)
        counters[id(st)] = k + 1
        if elem_name is None:
            for n in ast.walk(tgt):
                if isinstance(n, ast.Name):
                    env[n.id] = ("OTHER",)
            return
        if is_sub(v) and v[0] != "BAD":
            env[elem_name] = ("ELEM", id(st), k, apps(v))
        else:
            env[elem_name] = ("OTHER",)

    def _mutcall(self, ev, env):
        d = ev.data
        root = d.get("root")
        if d.get("chain") or root not in env:
            return
        cur = env[root]
        call = ev.node
        m = d.get("method")
        if cur[0] == "SRC":
            # mutation of the source is C07's purity rule (R07.e), not shape
            return
        if cur[0] != "BUILD":
            return
        toks, n = cur[1], cur[2]
        if m == "append" and len(call.args) == 1:
            a = self.eval(call.args[0], env)
            if a[0] == "ELEM":
                if a[2] is None:
                    if toks:
                        env[root] = ("UNKNOWN", "append of an element at unknown position", call)
                    else:
                        env[root] = ("BUILD", ((a[1], None),), a[3])
                    return
                tok = (a[1], a[2])
                if toks and toks[-1][0] != tok[0]:
                    env[root] = ("UNKNOWN", "elements appended from two different loops", call)
                elif toks and toks[-1][1] is not None and toks[-1][1] >= tok[1]:
                    env[root] = ("BAD", "the same element can be appended more than once", call)
                elif toks and a[3] != n:
                    env[root] = ("UNKNOWN", "elements of differently filtered lists mixed", call)
                else:
                    env[root] = ("BUILD", toks + (tok,), a[3])
            else:
                env[root] = ("BAD", "appends a value that is not an element of the input list", call)
        elif m == "extend" and len(call.args) == 1:
            a = self.eval(call.args[0], env)
            if not toks and is_sub(a):
                env[root] = a if a[0] == "BUILD" else ("BUILD", (("*", 0),), apps(a))
            else:
                env[root] = ("BAD", "extend() concatenates lists: duplicates / foreign operations possible", call)
        elif m in ("insert", "sort", "reverse", "appendleft", "extendleft"):
            env[root] = ("BAD", f"{m}() does not preserve the input order", call)
        elif m in ("remove", "pop", "clear", "popleft"):
            return

    # ----------------------------------------------------------- expressions
    def eval(self, e: ast.AST, env) -> tuple:
        if isinstance(e, ast.Name):
            return env.get(e.id, ("OTHER",))
        if isinstance(e, (ast.List, ast.Tuple)):
            toks = []
            for x in e.elts:
                v = self.eval(x, env)
                if v[0] != "ELEM":
                    return ("BAD", "list literal contains a value that is not an element of the input", e) if e.elts else ("BUILD", (), 0)
                toks.append((v[1], v[2]))
                n_src = v[3]
            for a, b in zip(toks, toks[1:]):
                if a[0] != b[0] or a[1] is None or b[1] is None or a[1] >= b[1]:
                    return ("UNKNOWN", "literal with several elements", e)
            return ("BUILD", tuple(toks), n_src if toks else 0)
        if isinstance(e, (ast.ListComp, ast.GeneratorExp)):
            if len(e.generators) != 1:
                g0 = e.generators[0]
                src0 = self.eval(g0.iter, env)
                if is_sub(src0) and isinstance(e.elt, ast.Name) and isinstance(g0.target, ast.Name) and e.elt.id == g0.target.id:
                    return ("BAD", "nested comprehension emits the outer element once per inner iteration: duplicates", e)
                return ("UNKNOWN", "nested comprehension", e)
            g = e.generators[0]
            # [x for x, t in zip(SRC, other) if ...]: zip walks its arguments in
            # step and stops at the shortest, so the component drawn from a
            # sub-list yields elements of it, in order, each at most once
            if (
                isinstance(g.iter, ast.Call) and dotted(g.iter.func) == "zip" and g.iter.args and all(k.arg == "strict" for k in g.iter.keywords)
                and isinstance(g.target, ast.Tuple) and len(g.target.elts) == len(g.iter.args) and isinstance(e.elt, ast.Name)
            ):
                vals = [self.eval(a, env) for a in g.iter.args]
                for i, (v, t) in enumerate(zip(vals, g.target.elts)):
                    if isinstance(t, ast.Name) and t.id == e.elt.id:
                        if is_sub(v) and v[0] != "BAD":
                            return ("BUILD", (("*", 0),), apps(v))
                        return v if v[0] in ("BAD", "UNKNOWN") else ("OTHER",)
            src = self.eval(g.iter, env)
            if not is_sub(src):
                return src if src[0] in ("BAD", "UNKNOWN") else ("OTHER",)
            if isinstance(e.elt, ast.Name) and isinstance(g.target, ast.Name) and e.elt.id == g.target.id:
                return ("BUILD", (("*", 0),), apps(src))
            if isinstance(g.target, ast.Name) and any(
                isinstance(n, ast.Name) and n.id == g.target.id for n in ast.walk(e.elt)
            ):
                return ("OTHER",)
            return ("OTHER",)
        if isinstance(e, ast.IfExp):
            a, b = self.eval(e.body, env), self.eval(e.orelse, env)
            for v in (a, b):
                if v[0] in ("BAD", "UNKNOWN"):
                    return v
            if is_sub(a) and is_sub(b):
                return a if apps(a) <= apps(b) else b
            return ("OTHER",)
        if isinstance(e, ast.Subscript):
            base = self.eval(e.value, env)
            if base[0] == "PERM":
                if isinstance(e.slice, ast.Slice):
                    return base
                return ("ELEM", id(e), None, base[3])
            if not is_sub(base):
                return ("OTHER",)
            if isinstance(e.slice, ast.Slice):
                st = e.slice.step
                if st is None or (isinstance(st, ast.Constant) and isinstance(st.value, int) and st.value > 0):
                    return ("BUILD", (("*", 0),), apps(base))
                return ("BAD", "slice with a negative / non-constant step reorders", e)
            return ("ELEM", id(e), None, apps(base))
        if isinstance(e, ast.BinOp) and isinstance(e.op, (ast.Add, ast.Mult)):
            a, b = self.eval(e.left, env), self.eval(e.right, env)
            if is_sub(a) or is_sub(b):
                return ("BAD", "list concatenation / repetition can duplicate operations", e)
            return ("OTHER",)
        if isinstance(e, ast.Call):
            return self._eval_call(e, env)
        if isinstance(e, ast.NamedExpr):
            v = self.eval(e.value, env)
            env[e.target.id] = v
            return v
        return ("OTHER",)

    def _eval_call(self, e: ast.Call, env):
        d = dotted(e.func)
        if self.src_call is not None and self.src_call(e):
            return ("SRC", 0)
        if self.filter_call is not None:
            arg = self.filter_call(e, env, self)
            if arg is not None:
                v = self.eval(arg, env)
                if is_sub(v):
                    return ("SRC", apps(v) + 1)
                return ("BAD", "filter applied to something that is not the (filtered) input list", e)
        if d in ORDER_BREAKERS and e.args:
            a = self.eval(e.args[0], env)
            if is_sub(a) or a[0] == "PERM":
                # same elements, order/multiplicity not preserved
                return ("PERM", ORDER_BREAKERS[d], e, apps(a) if is_sub(a) else a[3])
            return ("OTHER",)
        if d in COPY_CALLS and len(e.args) == 1:
            a = self.eval(e.args[0], env)
            if is_sub(a):
                return ("BUILD", (("*", 0),), apps(a))
            return a if a[0] in ("BAD", "UNKNOWN", "PERM") else ("OTHER",)
        if d == "filter" and len(e.args) == 2:
            a = self.eval(e.args[1], env)
            if is_sub(a):
                return ("BUILD", (("*", 0),), apps(a))
            return ("OTHER",)
        if d in ("min", "max", "next", "random.choice") and e.args:
            a = self.eval(e.args[0], env)
            if a[0] == "PERM":
                return ("ELEM", id(e), None, a[3])
            if is_sub(a):
                return ("ELEM", id(e), None, apps(a))
            return ("OTHER",)
        if isinstance(e.func, ast.Attribute) and e.func.attr == "copy" and not e.args:
            a = self.eval(e.func.value, env)
            if is_sub(a):
                return ("BUILD", (("*", 0),), apps(a))
            return ("OTHER",)
        # helper extracted into another package function
        targets, _ = self.ctx.res.callees(self.fi, e, self.fi.cls)
        if len(targets) == 1 and self.depth < 3 and not isinstance(targets[0].node, ast.Lambda):
            t = targets[0]
            params = t.params
            if t.cls is not None and not t.is_static:
                params = params[1:]
            sub_env = {}
            interesting = False
            for p, a in list(zip(params, e.args)) + [(k.arg, k.value) for k in e.keywords if k.arg]:
                v = self.eval(a, env)
                if v[0] in ("SRC", "BUILD", "ELEM"):
                    interesting = True
                    sub_env[p] = ("SRC", apps(v)) if is_sub(v) else v
            # when the source is a *call* (dispatcher.available_operations()),
            # a helper can draw from it without being handed it
            if self.src_call is not None and any(self.src_call(n) for n in ast.walk(t.node) if isinstance(n, ast.Call)):
                interesting = True
            if interesting:
                memo = self.ctx.__dict__.setdefault("_sub_memo", {})
                mkey = (t.qualname, tuple(sorted(sub_env.items())), id(self.filter_call), id(self.src_call))
                vals = memo.get(mkey)
                if vals is None:
                    it = SubInterp(self.ctx, t, sub_env, self.filter_call, self.src_call, self.depth + 1)
                    vals = [r[0] for r in it.run()]
                    memo[mkey] = vals
                for v in vals:
                    if v[0] in ("BAD", "UNKNOWN"):
                        return v
                subs = [v for v in vals if is_sub(v)]
                if subs and len(subs) == len(vals):
                    n = min(apps(v) for v in subs)
                    return ("BUILD", (("*", 0),), n)
                if vals and all(v[0] == "ELEM" for v in vals):
                    return ("ELEM", id(e), None, min(v[3] for v in vals))
                return ("OTHER",)
        return ("OTHER",)
