"""E4 - local dataflow: definitions, alias/freshness, dependence."""

from __future__ import annotations

import ast

from .repo import FuncInfo, Repo, dotted, own_nodes, body_of
from .resolve import Resolver

FRESH_CALLS = {
    "list", "set", "dict", "tuple", "sorted", "frozenset", "deque", "defaultdict",
    "collections.deque", "collections.defaultdict", "range", "enumerate", "zip",
    "map", "filter", "reversed", "sum", "min", "max", "len", "int", "float",
    "str", "bool", "abs", "any", "all", "round", "deepcopy", "copy.deepcopy",
    "copy.copy", "itertools.chain", "itertools.combinations", "isinstance",
    "np.array", "np.zeros", "np.ones", "np.full", "np.hstack", "np.vstack",
    "np.concatenate", "np.cumsum", "np.where", "np.maximum", "np.minimum",
    "np.min", "np.max", "np.isnan", "np.isinf", "np.any", "np.all", "np.less",
    "np.zeros_like", "np.full_like", "np.arange", "np.stack", "np.copy",
    "numpy.array", "numpy.zeros", "hash", "repr", "getattr", "type",
    "float", "divmod", "pow",
}
FRESH_METHODS = {
    "copy", "astype", "flatten", "tolist", "items", "keys", "values", "get",
    "split", "strip", "join", "format", "lower", "upper", "replace",
    "startswith", "endswith", "sum", "mean", "min", "max", "any", "all",
    "cumsum", "nonzero", "count", "index", "issubset", "union",
    "intersection", "difference", "number_of_edges", "edges", "nodes",
}
VIEW_METHODS = {"reshape", "ravel", "view", "squeeze", "transpose", "swapaxes"}


class Defs:
    """Flow-insensitive definitions of local names in one function."""

    def __init__(self, fi: FuncInfo):
        self.fi = fi
        self.defs: dict[str, list[tuple[str, ast.AST, ast.AST]]] = {}
        # kind: 'value' (name = expr), 'elem' (for name in expr / comp),
        #       'unpack' (tuple target), 'aug' (name op= expr), 'with'
        self.params = set(fi.params)
        a = fi.node.args
        if a.vararg:
            self.params.add(a.vararg.arg)
        if a.kwarg:
            self.params.add(a.kwarg.arg)
        for n in own_nodes(fi.node):
            if isinstance(n, ast.Assign):
                for t in n.targets:
                    self._bind(t, n.value, n, "value")
            elif isinstance(n, ast.AnnAssign) and n.value is not None:
                self._bind(n.target, n.value, n, "value")
            elif isinstance(n, ast.AugAssign):
                self._bind(n.target, n.value, n, "aug")
            elif isinstance(n, ast.NamedExpr):
                self._bind(n.target, n.value, n, "value")
            elif isinstance(n, (ast.For, ast.AsyncFor)):
                self._bind(n.target, n.iter, n, "elem")
            elif isinstance(n, ast.comprehension):
                self._bind(n.target, n.iter, n, "elem")
            elif isinstance(n, (ast.With, ast.AsyncWith)):
                for it in n.items:
                    if it.optional_vars is not None:
                        self._bind(it.optional_vars, it.context_expr, n, "with")

    def _bind(self, target, value, stmt, kind):
        if isinstance(target, ast.Name):
            self.defs.setdefault(target.id, []).append((kind, value, stmt))
        elif isinstance(target, (ast.Tuple, ast.List)):
            for i, e in enumerate(target.elts):
                if (
                    kind == "value"
                    and isinstance(value, (ast.Tuple, ast.List))
                    and len(value.elts) == len(target.elts)
                ):
                    self._bind(e, value.elts[i], stmt, "value")
                else:
                    k = "elem" if kind == "elem" else "unpack"
                    # enumerate(X): the 2nd component is an element of X
                    v = value
                    if kind == "value" and not isinstance(e, (ast.Tuple, ast.List, ast.Starred)):
                        # a, b = X   ->   a = X[0]; b = X[1]
                        sub = ast.Subscript(value=value, slice=ast.Constant(i), ctx=ast.Load())
                        ast.copy_location(sub, value)
                        ast.fix_missing_locations(sub)
                        self._bind(e, sub, stmt, "value")
                        continue
                    if (
                        kind == "elem"
                        and isinstance(value, ast.Call)
                        and dotted(value.func) == "enumerate"
                        and value.args
                    ):
                        if i == 0:
                            k, v = "index", value
                        else:
                            v = value.args[0]
                    elif (
                        kind == "elem"
                        and isinstance(value, ast.Call)
                        and dotted(value.func) == "zip"
                        and len(value.args) == len(target.elts)
                    ):
                        v = value.args[i]
                    elif (
                        kind == "elem"
                        and isinstance(value, ast.Call)
                        and isinstance(value.func, ast.Attribute)
                        and value.func.attr == "items"
                    ):
                        k = "index" if i == 0 else "elem"
                        v = value.func.value
                    self._bind(e, v, stmt, k)
        elif isinstance(target, ast.Starred):
            self._bind(target.value, value, stmt, "unpack")

    def of(self, name: str):
        return self.defs.get(name, [])

    def is_param(self, name: str) -> bool:
        return name in self.params and name not in self.defs


class Flow:
    """Alias / freshness and dependence queries over one repo."""

    def __init__(self, repo: Repo, res: Resolver):
        self.repo = repo
        self.res = res
        self._defs: dict[str, Defs] = {}
        self._ret_cache: dict[str, set] = {}

    def memo_decorators(self) -> set:
        """Names of the package's memoising decorators, recognised by what
        they do (an inner wrapper that stores its result into a dict attribute
        of ``self``), plus the functools caches."""
        got = getattr(self, "_memo_decos", None)
        if got is None:
            got = {"functools.lru_cache", "lru_cache", "functools.cache", "cache", "cached_property", "functools.cached_property"}
            for mi in self.repo.modules.values():
                for name, f in mi.functions.items():
                    if isinstance(f.node, ast.Lambda):
                        continue
                    inner = [x for x in ast.walk(f.node) if isinstance(x, ast.FunctionDef) and x is not f.node]
                    stores = [
                        1 for n in ast.walk(f.node) if isinstance(n, ast.Assign) for t in n.targets
                        if isinstance(t, ast.Subscript) and isinstance(t.value, ast.Attribute)
                        and isinstance(t.value.value, ast.Name) and t.value.value.id == "self"
                    ]
                    if inner and stores:
                        got.add(name)
            # import aliases of those (`from ._memo import memo as _memo`)
            for mi in self.repo.modules.values():
                for local, (_src, attr) in mi.imports.items():
                    if attr in got and attr not in ("cache",):
                        got.add(local)
            self._memo_decos = got
        return got

    def _is_mask_index(self, fi: FuncInfo, idx: ast.AST, _depth: int = 0) -> bool:
        """The index is a boolean mask array: ``~np.isnan(a)``, ``a > 0``,
        ``np.isin(...)``, a local defined as one of those."""
        if _depth > 3:
            return False
        if isinstance(idx, ast.Name):
            ds = [d for d in self.defs(fi).of(idx.id) if d[0] == "value" and d[1] is not None]
            return len(ds) == 1 and self._is_mask_index(fi, ds[0][1], _depth + 1)
        if isinstance(idx, ast.UnaryOp) and isinstance(idx.op, ast.Invert):
            return True
        if isinstance(idx, ast.Compare):
            return True
        if isinstance(idx, ast.BinOp) and isinstance(idx.op, (ast.BitAnd, ast.BitOr)):
            return self._is_mask_index(fi, idx.left, _depth + 1) or self._is_mask_index(fi, idx.right, _depth + 1)
        if isinstance(idx, ast.Call):
            name = ast.unparse(idx.func).split(".")[-1]
            return name in ("isnan", "isfinite", "isinf", "isin", "logical_and", "logical_or", "logical_not", "nonzero", "flatnonzero", "where")
        return False

    def defs(self, fi: FuncInfo) -> Defs:
        d = self._defs.get(fi.qualname)
        if d is None:
            d = Defs(fi)
            self._defs[fi.qualname] = d
        return d

    # ------------------------------------------------------------ aliases
    def origins(self, fi: FuncInfo, expr: ast.AST, recv_cls=None, _depth=0, _seen=None) -> set:
        """Where the *object* denoted by ``expr`` may come from.  Elements:
        ("fresh",)                  newly created, unshared
        ("param", name)             the object passed as parameter
        ("attr", root, chain)       reachable from root via attribute chain
        ("call", qualname, node)    result of a package callee (unsummarised)
        ("cached", qualname, node)  result of a memoised query
        ("elem", origin)            an element/component of a container
        ("unknown", text)
        """
        if _seen is None:
            _seen = set()
        if _depth > 8:
            return {("unknown", "depth")}
        n = expr
        if isinstance(n, ast.Constant):
            return {("fresh",)}
        if isinstance(
            n,
            (ast.List, ast.ListComp, ast.Set, ast.SetComp, ast.Dict, ast.DictComp,
             ast.GeneratorExp, ast.Tuple, ast.BinOp, ast.UnaryOp, ast.Compare,
             ast.BoolOp, ast.JoinedStr, ast.Lambda),
        ):
            if isinstance(n, ast.BoolOp):
                out = set()
                for v in n.values:
                    out |= self.origins(fi, v, recv_cls, _depth + 1, _seen)
                return out
            return {("fresh",)}
        if isinstance(n, ast.IfExp):
            return self.origins(fi, n.body, recv_cls, _depth + 1, _seen) | self.origins(
                fi, n.orelse, recv_cls, _depth + 1, _seen
            )
        if isinstance(n, ast.NamedExpr):
            return self.origins(fi, n.value, recv_cls, _depth + 1, _seen)
        if isinstance(n, ast.Name):
            d = self.defs(fi)
            key = (fi.qualname, n.id)
            if key in _seen:
                return set()
            _seen = _seen | {key}
            defs = d.of(n.id)
            out = set()
            if n.id in d.params:
                out.add(("param", n.id))
            if not defs and n.id not in d.params:
                # closure variable or global
                if fi.parent is not None:
                    return self.origins(fi.parent, n, recv_cls, _depth + 1, _seen)
                return {("global", n.id)}
            for kind, value, _ in defs:
                src = value
                if kind == "elem":
                    # the elements of a slice / a reordered or copied sequence
                    # are the elements of the sequence itself
                    for _k in range(4):
                        if isinstance(src, ast.Subscript) and isinstance(src.slice, ast.Slice):
                            src = src.value
                        elif (
                            isinstance(src, ast.Call) and isinstance(src.func, ast.Name) and src.func.id in ("reversed", "sorted", "list", "tuple")
                            and len(src.args) == 1
                        ):
                            src = src.args[0]
                        else:
                            break
                o = self.origins(fi, src, recv_cls, _depth + 1, _seen)
                if kind == "value":
                    out |= o
                elif kind in ("elem", "unpack", "with"):
                    out |= {("elem", x) if x[0] != "fresh" else ("elemfresh",) for x in o}
                elif kind == "aug":
                    # x += y on lists mutates x in place; origin unchanged
                    pass
                elif kind == "index":
                    out.add(("fresh",))
            return out
        if isinstance(n, ast.Attribute):
            pt = self.res.property_target(fi, n, recv_cls)
            if pt is not None:
                if any(dd.endswith("cached_property") for dd in pt.decorators):
                    return {("cached", pt.qualname, n)}
                # a plain property: summarise its returns in terms of self
                rets = self.return_origins(pt)
                out = set()
                base = self.origins(fi, n.value, recv_cls, _depth + 1, _seen)
                for r in rets:
                    if r[0] == "attr" and r[1] == "self":
                        for b in base:
                            out.add(self._extend(b, r[2]))
                    elif r[0] == "param" and r[1] == "self":
                        out |= base
                    else:
                        out.add(r)
                return out
            base = self.origins(fi, n.value, recv_cls, _depth + 1, _seen)
            return {self._extend(b, (n.attr,)) for b in base}
        if isinstance(n, ast.Subscript):
            base = self.origins(fi, n.value, recv_cls, _depth + 1, _seen)
            if isinstance(n.slice, ast.Slice):
                # list slices copy, ndarray slices are views: keep the alias
                # unless the base is statically a list
                heads = self.res.classes_of(fi, n.value, recv_cls)
                if heads and all(h in ("builtins.list", "builtins.tuple", "builtins.str") for h in heads):
                    return {("fresh",)}
                return base
            if self._is_mask_index(fi, n.slice):
                # a[mask] (boolean / fancy indexing) builds a new array
                return {("fresh",)}
            return {("elem", b) if b[0] != "fresh" else ("elemfresh",) for b in base}
        if isinstance(n, ast.Call):
            f = n.func
            d = dotted(f)
            if d in FRESH_CALLS or (d and d.startswith(("np.", "numpy.", "math.", "random.", "time.", "os."))):
                return {("fresh",)}
            if isinstance(f, ast.Attribute) and f.attr in VIEW_METHODS:
                return self.origins(fi, f.value, recv_cls, _depth + 1, _seen)
            targets, name = self.res.callees(fi, n, recv_cls)
            if targets:
                out = set()
                for t in targets:
                    if self.memo_decorators() & set(t.decorators):
                        out.add(("cached", t.qualname, n))
                        continue
                    if t.name == "__init__":
                        out.add(("fresh",))
                        continue
                    for r in self.return_origins(t):
                        out |= self._subst(r, t, n, fi, recv_cls, _depth, _seen)
                return out
            if isinstance(f, ast.Attribute) and f.attr in ("get", "setdefault", "pop", "popleft", "popitem") and name and (
                name.startswith(("builtins.dict", "builtins.list", "collections.", "dict.", "list.", "typing.")) or name.split(".")[0] in ("dict", "list", "defaultdict", "deque", "OrderedDict")
            ):
                # element look-up in a builtin container: the element, not a new object
                base = self.origins(fi, f.value, recv_cls, _depth + 1, _seen)
                els = {("elem", b) if b[0] != "fresh" else ("elemfresh",) for b in base}
                if f.attr in ("get", "setdefault") and len(n.args) > 1:
                    els |= self.origins(fi, n.args[1], recv_cls, _depth + 1, _seen)
                return els
            if isinstance(f, ast.Attribute) and f.attr in FRESH_METHODS:
                return {("fresh",)}
            if name and not name.startswith(self.repo.package) and not name.startswith(("?", "<")):
                # external library call: result assumed unshared
                return {("fresh",)}
            if isinstance(f, ast.Attribute) and f.attr == "pop":
                base = self.origins(fi, f.value, recv_cls, _depth + 1, _seen)
                return {("elem", b) for b in base}
            return {("unknown", ast.unparse(n)[:60])}
        if isinstance(n, ast.Starred):
            return self.origins(fi, n.value, recv_cls, _depth + 1, _seen)
        if isinstance(n, ast.Await):
            return self.origins(fi, n.value, recv_cls, _depth + 1, _seen)
        return {("unknown", type(n).__name__)}

    @staticmethod
    def _extend(b, chain):
        if b[0] == "param":
            return ("attr", b[1], tuple(chain))
        if b[0] == "attr":
            return ("attr", b[1], tuple(b[2]) + tuple(chain))
        if b[0] in ("fresh", "elemfresh"):
            return ("freshattr",) + tuple(chain)
        if b[0] == "freshattr":
            return b + tuple(chain)
        return ("attrof", b, tuple(chain))

    def _subst(self, r, target, call, fi, recv_cls, depth, seen):
        """Translates a callee return origin into the caller's terms."""
        params = target.params
        is_method = target.cls is not None and not target.is_static

        def arg_for(pname):
            if is_method and params and pname == params[0]:
                f = call.func
                return f.value if isinstance(f, ast.Attribute) else None
            ps = params[1:] if is_method else params
            for p, a in zip(ps, call.args):
                if p == pname:
                    return a
            for kw in call.keywords:
                if kw.arg == pname:
                    return kw.value
            return None

        if r[0] == "param":
            a = arg_for(r[1])
            if a is None:
                return {("unknown", f"arg {r[1]}")}
            return self.origins(fi, a, recv_cls, depth + 1, seen)
        if r[0] == "attr":
            a = arg_for(r[1])
            if a is None:
                return {("unknown", f"arg {r[1]}")}
            return {self._extend(b, r[2]) for b in self.origins(fi, a, recv_cls, depth + 1, seen)}
        if r[0] == "elem":
            inner = self._subst(r[1], target, call, fi, recv_cls, depth, seen)
            return {("elem", x) for x in inner}
        return {r}

    def return_origins(self, fi: FuncInfo) -> set:
        if fi.qualname in self._ret_cache:
            return self._ret_cache[fi.qualname]
        self._ret_cache[fi.qualname] = set()  # recursion guard
        out = set()
        if isinstance(fi.node, ast.Lambda):
            out |= self.origins(fi, fi.node.body)
        else:
            for n in own_nodes(fi.node):
                if isinstance(n, ast.Return) and n.value is not None:
                    out |= self.origins(fi, n.value, fi.cls)
        self._ret_cache[fi.qualname] = out
        return out

    # --------------------------------------------------------- dependence
    def depends_on(self, fi: FuncInfo, expr: ast.AST, pred, _depth=0, _seen=None) -> bool:
        """True if ``expr`` is (transitively, through local definitions)
        data-dependent on a sub-expression satisfying ``pred(node)``."""
        if _seen is None:
            _seen = set()
        if _depth > 10:
            return False
        d = self.defs(fi)
        for n in ast.walk(expr):
            if pred(n):
                return True
            if isinstance(n, ast.Name) and isinstance(n.ctx, ast.Load):
                if n.id in _seen:
                    continue
                _seen.add(n.id)
                for kind, value, stmt in d.of(n.id):
                    if self.depends_on(fi, value, pred, _depth + 1, _seen):
                        return True
                    # x.append(y) style contributions to a local container
                for m in own_nodes(fi.node):
                    if (
                        isinstance(m, ast.Call)
                        and isinstance(m.func, ast.Attribute)
                        and isinstance(m.func.value, ast.Name)
                        and m.func.value.id == n.id
                        and m.func.attr in ("append", "extend", "add", "update", "insert")
                    ):
                        for a in m.args:
                            if self.depends_on(fi, a, pred, _depth + 1, _seen):
                                return True
                    if (
                        isinstance(m, (ast.Assign, ast.AugAssign))
                    ):
                        tg = m.targets if isinstance(m, ast.Assign) else [m.target]
                        for t in tg:
                            if (
                                isinstance(t, ast.Subscript)
                                and isinstance(t.value, ast.Name)
                                and t.value.id == n.id
                            ):
                                if self.depends_on(fi, m.value, pred, _depth + 1, _seen):
                                    return True
        return False


def is_shared(origin) -> bool:
    """An origin that denotes an object other code can also reach."""
    k = origin[0]
    if k in ("fresh", "elemfresh", "freshattr"):
        return False
    return True
