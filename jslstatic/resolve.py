"""Callee / receiver resolution on top of E1 (repo model) and E2 (types).

mypy sees the untyped ``_dispatcher_cache`` decorator and types every cached
query as ``Any``; the annotation-based fallback here restores those types from
the undecorated signatures, and doubles as the independent second resolver the
thorough tier cross-checks against the oracle.
"""

from __future__ import annotations

import ast

from .repo import ClassInfo, FuncInfo, ModuleInfo, Repo, dotted, own_nodes
from .typeoracle import TypeOracle, heads

BUILTIN_HEADS = {
    "list": "builtins.list",
    "dict": "builtins.dict",
    "set": "builtins.set",
    "tuple": "builtins.tuple",
    "int": "builtins.int",
    "float": "builtins.float",
    "str": "builtins.str",
    "bool": "builtins.bool",
    "deque": "collections.deque",
    "Deque": "collections.deque",
}


class Resolver:
    def __init__(self, repo: Repo, types: TypeOracle | None):
        self.repo = repo
        self.types = types
        self._local_defs: dict[str, dict[str, list[ast.AST]]] = {}
        self.disagreements: list[str] = []
        self.consumed = 0
        self._memo_cls: dict = {}
        self._memo_attr: dict = {}
        self._memo_callees: dict = {}
        self._memo_prop: dict = {}

    # ------------------------------------------------------- annotations
    def ann_heads(self, mi: ModuleInfo, ann: ast.AST | None) -> list[str]:
        """Outermost class names of an annotation expression."""
        if ann is None:
            return []
        if isinstance(ann, ast.Constant) and isinstance(ann.value, str):
            try:
                ann = ast.parse(ann.value, mode="eval").body
            except SyntaxError:
                return []
        if isinstance(ann, ast.BinOp) and isinstance(ann.op, ast.BitOr):
            return self.ann_heads(mi, ann.left) + self.ann_heads(mi, ann.right)
        if isinstance(ann, ast.Constant) and ann.value is None:
            return []
        if isinstance(ann, ast.Subscript):
            base = dotted(ann.value)
            if base in ("Optional", "typing.Optional"):
                return self.ann_heads(mi, ann.slice)
            if base in ("Union", "typing.Union"):
                els = (
                    ann.slice.elts
                    if isinstance(ann.slice, ast.Tuple)
                    else [ann.slice]
                )
                return [h for e in els for h in self.ann_heads(mi, e)]
            return self.ann_heads(mi, ann.value)
        d = dotted(ann)
        if d is None:
            return []
        if d in BUILTIN_HEADS:
            return [BUILTIN_HEADS[d]]
        q = self.repo.resolve(mi.name, d)
        return [q] if q else [d]

    def ann_elem_heads(self, mi: ModuleInfo, ann: ast.AST | None) -> list[str]:
        """Element class of ``list[T]`` / ``Sequence[T]`` annotations."""
        if isinstance(ann, ast.Subscript):
            inner = ann.slice
            if isinstance(inner, ast.Tuple) and inner.elts:
                inner = inner.elts[-1]
            return self.ann_heads(mi, inner)
        return []

    # --------------------------------------------------------- local defs
    def local_defs(self, fi: FuncInfo) -> dict[str, list[ast.AST]]:
        """name -> list of value expressions assigned to it in ``fi`` (only
        plain ``name = value`` / annotated assignments)."""
        d = self._local_defs.get(fi.qualname)
        if d is not None:
            return d
        d = {}
        for n in own_nodes(fi.node):
            if isinstance(n, ast.Assign):
                for t in n.targets:
                    if isinstance(t, ast.Name):
                        d.setdefault(t.id, []).append(n.value)
            elif isinstance(n, ast.AnnAssign) and isinstance(n.target, ast.Name):
                if n.value is not None:
                    d.setdefault(n.target.id, []).append(n.value)
            elif isinstance(n, ast.NamedExpr):
                d.setdefault(n.target.id, []).append(n.value)
        self._local_defs[fi.qualname] = d
        return d

    # ------------------------------------------------------ receiver types
    def classes_of(
        self,
        fi: FuncInfo,
        node: ast.AST,
        recv_cls: ClassInfo | None = None,
        _depth: int = 0,
    ) -> list[str]:
        """Class names the value of ``node`` may have (outermost heads)."""
        if not self._persistent(fi, node):
            return self._classes_of(fi, node, recv_cls, _depth)
        key = (fi.qualname, id(node), recv_cls.qualname if recv_cls else None)
        hit = self._memo_cls.get(key)
        if hit is not None:
            return hit
        r = self._classes_of(fi, node, recv_cls, _depth)
        self._memo_cls[key] = r
        return r

    @staticmethod
    def _persistent(fi: FuncInfo, node: ast.AST) -> bool:
        """Memo tables are keyed by ``id(node)``: that is only an identity for
        nodes that stay alive, i.e. nodes of the (flattened) function's tree.
        Temporary copies made while expanding expressions are freed, their ids
        are reused by later copies, and a memo hit would then belong to another
        node - so they are never memoised."""
        try:
            return node in fi.module.parents
        except Exception:
            return False

    def _classes_of(self, fi, node, recv_cls, _depth):
        self.consumed += 1
        a = self._by_annotation(fi, node, recv_cls, _depth)
        if recv_cls is not None and self._is_self(fi, node):
            return [recv_cls.qualname]
        if self.types is not None:
            t = self.types.type_of(fi.module, node)
            h = [x for x in heads(t) if x not in ("Any", "builtins.object")]
            if h:
                if a and not self._compatible(h, a):
                    self.disagreements.append(
                        f"{fi.loc(node)} {ast.unparse(node)}: oracle={h} "
                        f"annotations={a}"
                    )
                return h
        return a

    def _compatible(self, h: list[str], a: list[str]) -> bool:
        """The fallback resolver is deliberately partial: it only *disagrees*
        when both sides name exactly one package class each and the two are
        unrelated.  Unions (the checker may have narrowed them), type
        variables and aliases are not compared."""
        hc = [x for x in dict.fromkeys(h) if x in self.repo.classes]
        ac = [y for y in dict.fromkeys(a) if y in self.repo.classes]
        if len(set(a)) != 1 or len(hc) != 1 or len(ac) != 1:
            return True
        x, y = hc[0], ac[0]
        return x == y or self.repo.is_subclass(x, y) or self.repo.is_subclass(y, x)

    def _is_self(self, fi: FuncInfo, node: ast.AST) -> bool:
        if not isinstance(node, ast.Name) or fi.cls is None:
            return False
        top = fi
        while top.parent is not None:
            top = top.parent
        if top.is_static or isinstance(top.node, ast.Lambda):
            return False
        ps = top.params
        return bool(ps) and node.id == ps[0] and not top.is_classmethod

    def _param_annotation(self, fi: FuncInfo, name: str):
        f: FuncInfo | None = fi
        while f is not None:
            a = f.node.args
            for p in a.posonlyargs + a.args + a.kwonlyargs:
                if p.arg == name:
                    return f, p.annotation
            f = f.parent
        return None, None

    def _call_sites(self, target: FuncInfo):
        """(caller, call node) pairs of the package that reach ``target``."""
        idx = getattr(self, "_site_index", None)
        if idx is None:
            idx = {}
            for g in self.repo.all_functions():
                if isinstance(g.node, ast.Lambda):
                    continue
                for n in own_nodes(g.node):
                    if isinstance(n, ast.Call):
                        nm = n.func.attr if isinstance(n.func, ast.Attribute) else n.func.id if isinstance(n.func, ast.Name) else None
                        if nm:
                            idx.setdefault(nm, []).append((g, n))
            self._site_index = idx
        out = []
        for g, n in idx.get(target.name, []):
            try:
                ts, _ = self.callees(g, n, g.cls)
            except Exception:
                continue
            if target in ts:
                out.append((g, n))
        return out

    def _from_call_sites(self, owner: FuncInfo, pname: str, depth: int) -> list[str]:
        key = ("sites", owner.qualname, pname)
        hit = self._memo_attr.get(key)
        if hit is not None:
            return hit
        self._memo_attr[key] = []  # recursion guard
        params = owner.params
        out: list[str] = []
        for g, call in self._call_sites(owner):
            ps = list(params)
            if owner.cls is not None and not owner.is_static and ps:
                ps = ps[1:]
            arg = None
            if pname in ps and ps.index(pname) < len(call.args):
                arg = call.args[ps.index(pname)]
            for kw in call.keywords:
                if kw.arg == pname:
                    arg = kw.value
            if arg is None or isinstance(arg, ast.Starred):
                continue
            out += [c for c in self.classes_of(g, arg, None, depth + 1) if c not in out]
        self._memo_attr[key] = out
        return out

    def _by_annotation(self, fi, node, recv_cls, depth) -> list[str]:
        if depth > 6:
            return []
        mi = fi.module
        if isinstance(node, ast.Name):
            if self._is_self(fi, node):
                c = recv_cls or fi.cls
                return [c.qualname] if c else []
            owner, ann = self._param_annotation(fi, node.id)
            if owner is not None:
                if ann is None and owner.name.startswith("_") and not owner.name.startswith("__") and depth < 3:
                    # an unannotated parameter of a private helper: the classes
                    # its package call sites pass
                    return self._from_call_sites(owner, node.id, depth)
                return self.ann_heads(owner.module, ann)
            out = []
            f: FuncInfo | None = fi
            while f is not None and not out:
                for v in self.local_defs(f).get(node.id, []):
                    out += self._by_annotation(f, v, recv_cls, depth + 1)
                f = f.parent
            if out:
                return list(dict.fromkeys(out))
            q = self.repo.resolve(mi.name, node.id)
            if q in self.repo.classes:
                return ["type:" + q]
            return []
        if isinstance(node, ast.Call):
            f = node.func
            if isinstance(f, ast.Name) or (
                isinstance(f, ast.Attribute) and dotted(f)
            ):
                q = self.repo.resolve(mi.name, dotted(f) or "")
                if q in self.repo.classes:
                    return [q]
                if q in self.repo.functions:
                    tf = self.repo.functions[q]
                    return self.ann_heads(tf.module, tf.node.returns)
            if isinstance(f, ast.Attribute):
                for c in self._by_annotation(fi, f.value, recv_cls, depth + 1):
                    m = self.repo.method(c, f.attr)
                    if m is not None and not isinstance(m.node, ast.Lambda):
                        return self.ann_heads(m.module, m.node.returns)
            return []
        if isinstance(node, ast.Attribute):
            for c in self._by_annotation(fi, node.value, recv_cls, depth + 1):
                m = self.repo.method(c, node.attr)
                if m is not None and m.is_property:
                    return self.ann_heads(m.module, m.node.returns)
                ci = self.repo.classes.get(c)
                if ci is not None:
                    r = self._attr_annotation(ci, node.attr)
                    if r:
                        return r
            return []
        return []

    def _attr_annotation(self, ci: ClassInfo, attr: str) -> list[str]:
        """Type of ``self.attr`` from ``self.attr: T = ...`` or from the
        annotation of the parameter assigned to it in ``__init__``."""
        key = (ci.qualname, attr)
        if key not in self._memo_attr:
            self._memo_attr[key] = self._attr_annotation_uncached(ci, attr)
        return self._memo_attr[key]

    def _attr_annotation_uncached(self, ci: ClassInfo, attr: str) -> list[str]:
        for q in ci.mro:
            c = self.repo.classes.get(q)
            if c is None:
                continue
            for m in c.methods.values():
                for n in own_nodes(m.node):
                    if (
                        isinstance(n, ast.AnnAssign)
                        and isinstance(n.target, ast.Attribute)
                        and n.target.attr == attr
                        and isinstance(n.target.value, ast.Name)
                        and n.target.value.id == "self"
                    ):
                        return self.ann_heads(c.module, n.annotation)
            init = c.methods.get("__init__")
            if init is not None:
                for n in own_nodes(init.node):
                    if isinstance(n, ast.Assign):
                        for t in n.targets:
                            if (
                                isinstance(t, ast.Attribute)
                                and t.attr == attr
                                and isinstance(t.value, ast.Name)
                                and t.value.id == "self"
                            ):
                                r = self._by_annotation(init, n.value, None, 3)
                                if r:
                                    return r
        return []

    # ------------------------------------------------------------- callees
    def callees(
        self, fi: FuncInfo, call: ast.Call, recv_cls: ClassInfo | None = None
    ) -> tuple[list[FuncInfo], str | None]:
        """Package functions a call may reach, plus a printable qualified
        name (also for external callees, e.g. ``random.choice``)."""
        if not self._persistent(fi, call):
            return self._callees(fi, call, recv_cls)
        key = (fi.qualname, id(call), recv_cls.qualname if recv_cls else None)
        hit = self._memo_callees.get(key)
        if hit is None:
            hit = self._callees(fi, call, recv_cls)
            self._memo_callees[key] = hit
        return hit

    def _local_imports(self, fi: FuncInfo) -> dict[str, str]:
        """Names bound by import statements inside the function (and its
        enclosing functions): local name -> qualified target."""
        key = ("imports", fi.qualname)
        hit = self._memo_attr.get(key)
        if hit is not None:
            return hit
        out: dict[str, str] = {}
        f: FuncInfo | None = fi
        while f is not None:
            for n in own_nodes(f.node):
                if isinstance(n, ast.Import):
                    for a in n.names:
                        out.setdefault(a.asname or a.name.split(".")[0], a.name if a.asname else a.name.split(".")[0])
                elif isinstance(n, ast.ImportFrom) and n.module:
                    for a in n.names:
                        out.setdefault(a.asname or a.name, f"{n.module}.{a.name}")
            f = f.parent
        self._memo_attr[key] = out
        return out

    def _callees(self, fi, call, recv_cls):
        f = call.func
        li = self._local_imports(fi)
        d0 = dotted(f)
        if li and d0 is not None and d0.split(".")[0] in li:
            head, _, rest = d0.partition(".")
            q = li[head] + ("." + rest if rest else "")
            if q.startswith(self.repo.package):
                mod, _, name = q.rpartition(".")
                r = self.repo.resolve(mod, name) if mod in self.repo.modules else None
                if r:
                    return self._target_of_qual(r, d0)
            return [], q
        mi = fi.module
        # super().m(...)
        if (
            isinstance(f, ast.Attribute)
            and isinstance(f.value, ast.Call)
            and isinstance(f.value.func, ast.Name)
            and f.value.func.id == "super"
        ):
            defining = fi.cls
            if defining is not None:
                tgt = self.repo.super_method(
                    recv_cls or defining, defining, f.attr
                )
                if tgt is not None:
                    return [tgt], tgt.qualname
                return [], f"super().{f.attr}"
        if isinstance(f, ast.Name):
            # local closure / parameter callable?
            if self._param_annotation(fi, f.id)[0] is not None:
                return [], f"<param {f.id}>"
            ff: FuncInfo | None = fi
            while ff is not None:
                q = f"{ff.qualname}.<locals>.{f.id}"
                if q in self.repo.functions:
                    return [self.repo.functions[q]], q
                ff = ff.parent
            if f.id in self.local_defs(fi):
                return [], f"<local {f.id}>"
            # code inlined from another module resolves its globals there
            q = self.repo.resolve(getattr(f, "_origin_mod", None) or mi.name, f.id)
            return self._target_of_qual(q, f.id)
        if isinstance(f, ast.Attribute):
            d = dotted(f)
            # module.func / Class.static / Class(...)
            if d is not None:
                head = d.split(".")[0]
                is_local = (
                    self._param_annotation(fi, head)[0] is not None
                    or head in self.local_defs(fi)
                    or self._is_self(fi, ast.Name(id=head))
                )
                if not is_local:
                    q = self.repo.resolve(getattr(f, "_origin_mod", None) or mi.name, d)
                    if q is not None:
                        t, name = self._target_of_qual(q, d)
                        if t or not q.startswith(self.repo.package):
                            return t, name
                        # Class.method where Class is a package class
                        cq, _, meth = q.rpartition(".")
                        if cq in self.repo.classes:
                            m = self.repo.method(cq, meth)
                            if m is not None:
                                return [m], m.qualname
            # instance method through the receiver's type
            out: list[FuncInfo] = []
            names = []
            for c in self.classes_of(fi, f.value, recv_cls):
                if c.startswith("type:"):
                    c = c[5:]
                m = self.repo.method(c, f.attr)
                if m is not None:
                    if m not in out:
                        out.append(m)
                else:
                    names.append(f"{c}.{f.attr}")
            if out:
                return out, out[0].qualname
            if names:
                return [], names[0]
            return [], f"?.{f.attr}"
        return [], None

    def _target_of_qual(self, q: str | None, shown: str):
        if q is None:
            return [], shown
        if q in self.repo.functions:
            return [self.repo.functions[q]], q
        if q in self.repo.classes:
            init = self.repo.method(q, "__init__")
            return ([init] if init else []), q
        return [], q

    def property_target(
        self, fi: FuncInfo, node: ast.Attribute, recv_cls: ClassInfo | None = None
    ) -> FuncInfo | None:
        """The @property getter (or setter, for stores) ``node`` invokes."""
        key = (fi.qualname, id(node), recv_cls.qualname if recv_cls else None)
        if not self._persistent(fi, node):
            return self._property_target(fi, node, recv_cls)
        if key not in self._memo_prop:
            self._memo_prop[key] = self._property_target(fi, node, recv_cls)
        return self._memo_prop[key]

    def _property_target(self, fi, node, recv_cls):
        store = isinstance(node.ctx, (ast.Store, ast.Del))
        for c in self.classes_of(fi, node.value, recv_cls):
            if store:
                s = self.repo.setter(c, node.attr)
                if s is not None:
                    return s
            else:
                m = self.repo.method(c, node.attr)
                if m is not None and m.is_property:
                    return m
        return None
